#!/usr/bin/env python3
"""
vfx.prop -- decide one property: run its units, replay counterexamples, write evidence.
Exit codes: 0 held, 1 violation (VIOLATION line printed), 2 undecided / machinery broken.
"""
import os, sys, json, time, re, shutil, concurrent.futures, importlib

VERIF = os.path.dirname(os.path.dirname(os.path.abspath(__file__)))
sys.path.insert(0, VERIF)
from vfx import core, replay, intwp
from vfx.core import log

TRUSTED_BASE = [
    "clang 14 parser/Sema: the JSON AST of the instantiated templates is the input of the extraction",
    "vfx/extract.py (AST -> C printer); guarded by must-fire rules and the native differential smoke run",
    "CBMC 6.11.0 + goto-instrument --dfcc (contract instrumentation), and the solver that discharged each obligation (minisat/cadical/kissat/z3/cvc5)",
    "C semantics as implemented by CBMC for x86-64 LP64: two's complement, arithmetic >> of negative values, modular signed<->unsigned conversion (implementation-defined in C++17, identical in GCC and Clang)",
    "IEEE-754 binary32/64 round-to-nearest-even, no contraction, no x87 excess precision",
    "GCC and Clang compile programs without undefined behaviour faithfully",
]


def load_known():
    p = os.path.join(VERIF, 'known_findings.json')
    if not os.path.exists(p):
        return []
    return json.load(open(p)).get('findings', [])


def run_property(pid, tier='quick', seed=0):
    t0 = time.time()
    bind = importlib.import_module('spec.bind')
    units = [u for u in bind.units(pid) if tier == 'thorough' or u.tier == 'quick']
    if os.environ.get('VF_UNITS'):
        units = [u for u in units if re.search(os.environ['VF_UNITS'], u.id)]
    skipped = [u.id for u in bind.units(pid) if not (tier == 'thorough' or u.tier == 'quick')]
    info = bind.PROPS[pid]
    workdir = os.path.join(core.BUILD, 'work', pid)
    shutil.rmtree(workdir, ignore_errors=True)
    os.makedirs(workdir, exist_ok=True)
    # load every configuration needed before going parallel
    early_problems = []
    try:
        for cfg in sorted(set(u.cfg for u in units)):
            core.get_ast(cfg)
    except core.Undecided as ex:
        # the specification no longer compiles against the tree (e.g. the signature of an internal helper it names was
        # changed): no unit can be decided. The native stand-ins use only the public API and are still run, so that a
        # real violation is still reported; otherwise the outcome is exit 2 (undecided), never a verdict.
        early_problems.append('spec/all.cc does not compile against the current tree: %s' % str(ex)[-1500:])
        units = []
    results = []
    with concurrent.futures.ThreadPoolExecutor(max_workers=core.NCPU) as tp:
        futs = {(tp.submit(intwp.solve_unit_int, u, workdir, core, seed) if u.engine == 'int' else
                 tp.submit(core.solve_unit, u, workdir, seed)): u for u in units}
        for f in concurrent.futures.as_completed(futs):
            u = futs[f]
            try:
                r = f.result()
            except Exception as e:  # machinery error, never a verdict
                import traceback
                r = {'unit': u.id, 'obligations': [], 'undecided': [], 'errors': ['exception: %s\n%s' % (e, traceback.format_exc())], 'meta': None}
            r['_unit'] = u
            results.append(r)
            nf = sum(1 for o in r['obligations'] if o['status'] == 'FAILURE' and 'vf_canary' not in o['desc'])
            line = '[%s] unit %-40s %3d obligations, %d failed, %d undecided, %d errors  (%.1fs)' % (
                pid, u.id, len(r['obligations']), nf, len(r['undecided']), len(r['errors']), r.get('seconds', 0))
            log(line)
            with open(os.path.join(workdir, 'units.log'), 'a') as lf:
                lf.write(line + '\n')
                for e in r['errors']:
                    lf.write('    ERROR ' + e[:1500] + '\n')
                for e in r['undecided']:
                    lf.write('    UNDECIDED ' + e['name'] + '\n')
    results.sort(key=lambda r: r['unit'])

    # extra (non-CBMC) steps: stand-ins, INT back end; each returns dict(name, kind, ok, detail, violations=[...])
    extras = []
    for step in bind.extras(pid, tier):
        if early_problems and getattr(step, '__name__', '').startswith('smoke_'):
            continue
        try:
            e = step(tier, seed)
        except core.Undecided as ex:
            e = {'name': getattr(step, '__name__', 'extra'), 'kind': 'error', 'ok': None, 'detail': str(ex), 'violations': []}
        extras.append(e)
        log('[%s] extra %-40s ok=%s %s' % (pid, e['name'], e['ok'], str(e.get('summary', ''))[:100]))

    known = [k for k in load_known() if k.get('property') == pid]
    problems, violations, known_hits = list(early_problems), [], []
    n_obl = n_ok = n_bounded = n_bounded_ok = 0
    soft_undecided = []
    by_backend = {}
    samples = []
    fn_under_contract = []
    all_dropped = {}
    assumptions = list(info.get('assumptions', []))
    for r in results:
        u = r['_unit']
        for e in r['errors']:
            problems.append('%s: %s' % (u.id, e))
        for w in r.get('warnings', []):
            problems.append('%s: cbmc warning: %s' % (u.id, w))
        if r['meta']:
            m = r['meta']
            fn_under_contract.append({'unit': u.id, 'function': m['qualname'], 'signature': m['type'],
                                      'source': '%s:%s' % (m['src'][0], m['src'][1]) if m['src'] else None,
                                      'pre': u.pre, 'post': u.post if not u.lemma else 'lemma: returns true',
                                      'callees_replaced_by_contract': m['replaced'],
                                      'functions_in_unit': len(m['functions']), 'loops': m['loops']})
            for k, v in m['dropped'].items():
                all_dropped[k] = all_dropped.get(k, 0) + v
            for x in m['externals']:
                pre_txt = (u.prelude() if callable(u.prelude) else u.prelude) if u.prelude else ''
                has_body = re.search(r'\b%s\s*\([^;{]*\)\s*\{' % re.escape(x), pre_txt) is not None
                how = 'an assumed contract' if x in u.replace_raw else ('a C model supplied in the unit prelude (not code of the repository)' if has_body else
                                                                       'a bodiless declaration: its caller enters by an assumed/proved contract, the call itself is not analysed')
                a = 'external %s modelled by %s (unit %s)' % (x, how, u.id)
                if a not in assumptions:
                    assumptions.append(a)
            for x in m.get('uf_abstracted', []):
                a = 'determinism abstraction: in relational lemmas the pure kernel %s is replaced by an uninterpreted function of its arguments (sound because the extraction subset admits only by-value parameters, no mutable globals and no static locals; its frame `assigns()` is proved where its own contract is enforced)' % x
                if a not in assumptions:
                    assumptions.append(a)
            if m['sideeffect_args']:
                problems.append('%s: call argument with side effect (evaluation order): %s' % (u.id, m['sideeffect_args']))
        canary_seen = canary_failed = False
        for o in r['obligations']:
            if 'vf_canary' in o['desc']:
                canary_seen = True
                canary_failed = o['status'] == 'FAILURE'
                continue
            if o['lib']:
                if o['status'] != 'SUCCESS':
                    problems.append('%s: instrumentation self-check %s %s' % (u.id, o['name'], o['status']))
                continue
            if u.bounded:
                n_bounded += 1
                if o['status'] == 'SUCCESS':
                    n_bounded_ok += 1
                else:
                    violations.append((u, r, o))
                continue
            n_obl += 1
            by_backend.setdefault(o['backend'], [0, 0.0])
            by_backend[o['backend']][0] += 1
            by_backend[o['backend']][1] += o['seconds']
            if o['status'] == 'SUCCESS':
                n_ok += 1
                if len(samples) < 12 and ('postcondition' in o['name'] or 'loop_invariant' in o['name'] or len(samples) < 4):
                    samples.append({'unit': u.id, 'obligation': o['name'], 'description': o['desc'],
                                    'backend': o['backend'], 'seconds': o['seconds'], 'status': 'SUCCESS'})
            else:
                violations.append((u, r, o))
        for und in r['undecided']:
            if 'vf_canary' in und['desc'] and not getattr(u, 'soft', False):
                continue
            if getattr(u, 'soft', False):
                # a unit that strengthens a clause which a labelled scan of the same run also checks: an obligation the solvers leave
                # undecided is reported and counted as NOT discharged, but does not by itself make the check undecided
                if 'vf_canary' not in und['desc']:
                    n_obl += 1
                soft_undecided.append('%s: obligation %s (%s) not proved in this run (solver time-out)' % (u.id, und['name'], und['desc']))
                continue
            problems.append('%s: undecided obligation %s (%s)' % (u.id, und['name'], und['desc']))
        if r['meta'] and not u.no_canary:
            if not canary_seen and getattr(u, 'soft', False) and any('vf_canary' in und['desc'] for und in r['undecided']):
                pass        # satisfiability canary timed out in a soft unit: already listed under NOT-PROVED
            elif not canary_seen:
                problems.append('%s: canary obligation missing' % u.id)
            elif not canary_failed:
                problems.append('%s: vacuity canary did not fire: precondition is contradictory or harness unreachable' % u.id)
        if r['meta'] and u.expect_props:
            names = ' '.join(o['name'] for o in r['obligations'])
            for pat in u.expect_props:
                if not re.search(pat, names):
                    problems.append('%s: expected obligation class %s not generated' % (u.id, pat))
        if r['meta'] and not any((not o['lib']) and 'vf_canary' not in o['desc'] for o in r['obligations']) and not r['undecided']:
            problems.append('%s: zero obligations' % u.id)

    # ---- replay every solver-refuted obligation on the real code
    vio_lines, kf_lines = [], []
    rdir = os.path.join(VERIF, 'replays', pid)
    shutil.rmtree(rdir, ignore_errors=True)
    vcount = 0
    seen_units = {}
    for (u, r, o) in violations:
        os.makedirs(rdir, exist_ok=True)
        m = r['meta']
        if u.engine == 'int':
            tr, err = ({'inputs': {}, 'raw_tail': 'SMT model: %s' % o.get('inputs')}, None)
        else:
            tr, err = core.get_trace(u, r['binary'], o['name'], o['backend'])
        rp = {'property': pid, 'unit': u.id, 'obligation': o['name'], 'description': o['desc'],
              'function': m['qualname'], 'signature': m['type'], 'source': m['src'][:2] if m['src'] else None,
              'extracted_c_line': o.get('line'), 'in_function': o.get('function'),
              'params': m['params'], 'ret': m['ret'], 'cxx': u.cxx, 'pre': u.pre, 'post': u.post, 'lemma': u.lemma,
              'cfg': u.cfg, 'backend': o['backend'], 'inputs': {}, 'solver_output': '', 'native_post': u.native_post, 'pre_consts': list(u.pre_consts)}
        if u.engine == 'int':
            rp['inputs'] = o.get('inputs', {})
            rp['solver_output'] = 'sat (counterexample) from %s for obligation %s: %s' % (o['backend'], o['name'], o['desc'])
        elif tr:
            rp['inputs'] = {k: replay.value_bits(v) for k, v in tr['inputs'].items()}
            rp['solver_output'] = json.dumps(tr['raw_tail'])[:6000]
        else:
            rp['solver_output'] = 'FAILURE reported by %s for %s; %s' % (o['backend'], o['name'], err)
        nat = None
        if u.cxx and (rp['inputs'] or not m['params']):
            nat = replay.native(rp)
            rp['native'] = nat
        fname = re.sub(r'[^A-Za-z0-9_.-]', '_', '%s__%s' % (u.id, o['name']))[:150] + '.json'
        path = os.path.join(rdir, fname)
        with open(path, 'w') as f:
            json.dump(rp, f, indent=1)
        reproduced = bool(nat and nat['outcome'].startswith('reproduced'))
        k = match_known(known, u, o, rp)
        if k is not None:
            known_hits.append((k, reproduced))
            continue
        vcount += 1
        line = 'VIOLATION property=%s replay=%s' % (pid, path)
        if not reproduced:
            line += ' no-failing-input-found'
        vio_lines.append(line)
        log('  obligation %s :: %s -> %s' % (u.id, o['name'], nat['outcome'] if nat else 'no native replay'))
    for e in extras:
        if e['ok'] is None:
            problems.append('extra %s: %s' % (e['name'], e['detail']))
        for v in e.get('violations', []):
            os.makedirs(rdir, exist_ok=True)
            path = os.path.join(rdir, re.sub(r'[^A-Za-z0-9_.-]', '_', '%s__%s' % (e['name'], v.get('id', 'v')))[:150] + '.json')
            with open(path, 'w') as f:
                json.dump(dict(v, property=pid, unit=e['name']), f, indent=1)
            k = match_known_extra(known, e, v)
            if k is not None:
                known_hits.append((k, True))
                continue
            vcount += 1
            line = 'VIOLATION property=%s replay=%s' % (pid, path)
            if not v.get('has_input', True):
                line += ' no-failing-input-found'
            vio_lines.append(line)
    for k in known:
        if k.get('status') == 'known':
            hit = [h for h in known_hits if h[0] is k]
            if hit:
                kf_lines.append('KNOWN-FINDING: property=%s %s' % (pid, k['what']))

    # ---- evidence
    wall = time.time() - t0
    ex_obl = sum(e.get('obligations', 0) for e in extras)
    ex_ok = sum(e.get('discharged', 0) for e in extras)
    level = info['level']
    if soft_undecided and level == 'proof':
        level = 'other'      # this run did not discharge every obligation: what it decided rests partly on the labelled scan
    cov = {
        'obligations': n_obl + ex_obl,
        'discharged': n_ok + ex_ok,
        'checker_cmd': 'cd /verif && ./check %s --tier %s   (per unit: goto-cc --function vf_harness unit.c; goto-instrument --dfcc vf_harness --enforce-contract F [--replace-call-with-contract G].. [--apply-loop-contracts]; cbmc --json-ui %s [back end])' % (pid, tier, ' '.join(core.CBMC_CHECKS)),
        'trusted_base': TRUSTED_BASE + info.get('trusted_extra', []),
        'explanation': info['explanation'],
        'functions_under_contract': fn_under_contract,
        'by_backend': {k: {'obligations': v[0], 'solver_seconds': round(v[1], 2)} for k, v in by_backend.items()},
        'samples': samples + [s for e in extras for s in e.get('samples', [])][:12],
        'extras': [{k: v for k, v in e.items() if k not in ('violations', 'samples')} for e in extras],
        'standins': [e.get('standin') for e in extras if e.get('standin')],
        'not_decided': info.get('not_decided', []) + problems + soft_undecided,
        'skipped_in_quick': skipped,
        'extraction_dropped': all_dropped,
        'units': len(units),
        'bounded_standins': {'obligations': n_bounded, 'passed': n_bounded_ok, 'units': [{'unit': u.id, 'bound': u.bounded} for u in units if u.bounded],
                             'note': 'bounded checks are never counted under obligations/discharged'},
        'tree_hash': core.tree_hash(),
        'known_findings_matched': [k[0].get('what') for k in known_hits],
    }
    # generic keys as well (accepted for every level)
    cov['evaluations'] = max(1, n_obl + ex_obl + sum(e.get('evaluations', 0) for e in extras))
    cov['distinct_nontrivial'] = max(2, n_obl + ex_obl) if (n_obl + ex_obl) >= 2 else n_obl + ex_obl
    cov['rule'] = 'one case = one verification condition generated by goto-instrument/cbmc for a function under contract (library self-checks and the vacuity canary excluded); distinct by obligation id'
    ev = {'property_id': pid, 'tier': tier, 'seed': seed, 'level': level, 'coverage': cov,
          'assumptions': assumptions, 'wall_s': round(wall, 2), 'violations': vcount}
    os.makedirs(os.path.join(VERIF, 'evidence'), exist_ok=True)
    with open(os.path.join(VERIF, 'evidence', pid + '.json'), 'w') as f:
        json.dump(ev, f, indent=1)

    for l in kf_lines:
        print(l)
    for l in vio_lines:
        print(l)
    if vio_lines:
        return 1
    if problems:
        for p in problems:
            log('UNDECIDED: ' + p[:2000])
        return 2
    for p in soft_undecided:
        log('NOT-PROVED: ' + p[:600])
    if soft_undecided:
        print('%s: %d obligation(s) of the strengthening units were not proved in this run (solver time-out); the clause they strengthen is covered by the labelled scan of this run only -- see not_decided in the evidence' % (pid, len(soft_undecided)))
    print('%s: %d/%d obligations discharged in %d units (%.0fs)%s' % (
        pid, n_ok + ex_ok, n_obl + ex_obl, len(units), wall,
        ''.join('; ' + str(e.get('summary', '')) for e in extras if e.get('summary'))))
    return 0


def match_known(known, u, o, rp):
    for k in known:
        if k.get('status') != 'known':
            continue
        if k.get('unit') and not re.fullmatch(k['unit'], u.id):
            continue
        if k.get('obligation') and not re.search(k['obligation'], o['name'] + ' ' + o['desc']):
            continue
        return k
    return None


def match_known_extra(known, e, v):
    for k in known:
        if k.get('status') != 'known':
            continue
        if k.get('unit') and not re.fullmatch(k['unit'], e['name']):
            continue
        if k.get('input') is not None and k.get('input') != v.get('input'):
            continue
        return k
    return None
