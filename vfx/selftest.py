#!/usr/bin/env python3
"""setup: check the tools are present and warm the AST cache (python3 -m vfx.selftest)"""
import shutil, sys, os
sys.path.insert(0, os.path.dirname(os.path.dirname(os.path.abspath(__file__))))
from vfx import core


def main():
    missing = [t for t in ('clang++', 'g++', 'goto-cc', 'goto-instrument', 'cbmc', 'kissat', 'z3', 'cvc5') if not shutil.which(t)]
    if missing:
        print('missing tools:', missing)
        return 1
    for cfg in ('abacus', 'stdsqrt'):
        core.get_ast(cfg)
    print('vfx selftest ok')
    return 0


if __name__ == '__main__':
    sys.exit(main())
