#!/usr/bin/env python3
"""
vfx.extract -- mechanical extraction of fixed_math C++ functions to C, from clang's
semantic AST (clang++ -Xclang -ast-dump=json).

The translation is purely structural: every function is printed from its *instantiated*
AST (overload resolution, template instantiation, `if constexpr` selection and implicit
conversions are clang's). Anything this file does not know how to translate raises
ExtractError -> the driver exits 2 ("extraction broken"), never a verdict.

Translation rules (complete):
  * struct with fields only (fixed_t, fix_carrier_t) -> C struct typedef
  * `T &` parameter / return                         -> `T *` ; lvalue uses `(*p)`
  * `const T &` and `T &&` parameter                 -> by value (callee cannot write it)
  * copy/move constructor, defaulted operator=       -> struct copy / C assignment
  * other constructors                               -> C function returning the struct
  * const member function                            -> C function taking `this_` by value
  * namespace-scope / static-member constexpr var    -> accessor function evaluating
                                                        the translated initialiser
  * std::array<T,N> variable + operator[]            -> `const T name[N]` + index
  * ImplicitCastExpr and friends                     -> explicit C cast by castKind;
       FloatingToIntegral through a helper asserting the value is in range (UB in C++)
  * `if constexpr`                                   -> the selected branch
  * __builtin_expect / clz / ctz                     -> kept (clz/ctz assert arg != 0)
  * __builtin_sqrt (inside std::sqrt)                -> external vf_sqrt (assumed contract)
  * __builtin_is_constant_evaluated                  -> configuration constant
Dropped (no run-time meaning): attributes, constexpr/inline/noexcept, static_assert,
using/typedef declarations, comments, namespaces (folded into the mangled name).
"""
import json, sys, re, collections, hashlib

sys.setrecursionlimit(100000)


class ExtractError(Exception):
    pass


BUILTIN = {
    'bool': '_Bool', 'char': 'char', 'signed char': 'signed char', 'unsigned char': 'unsigned char',
    'short': 'short', 'unsigned short': 'unsigned short', 'int': 'int', 'unsigned int': 'unsigned int',
    'long': 'long', 'unsigned long': 'unsigned long', 'long long': 'long long',
    'unsigned long long': 'unsigned long long', 'float': 'float', 'double': 'double',
    'long double': 'long double', '__int128': '__int128', 'unsigned __int128': 'unsigned __int128',
    'void': 'void',
}
SIZEOF = {'_Bool': 1, 'char': 1, 'signed char': 1, 'unsigned char': 1, 'short': 2, 'unsigned short': 2,
          'int': 4, 'unsigned int': 4, 'long': 8, 'unsigned long': 8, 'long long': 8,
          'unsigned long long': 8, 'float': 4, 'double': 8, 'long double': 16,
          '__int128': 16, 'unsigned __int128': 16}
SIGNED_INT = {'signed char': 8, 'short': 16, 'int': 32, 'long': 64, 'long long': 64, '__int128': 128, 'char': 8}
UNSIGNED_INT = {'_Bool': 1, 'unsigned char': 8, 'unsigned short': 16, 'unsigned int': 32, 'unsigned long': 64,
                'unsigned long long': 64, 'unsigned __int128': 128}
FLOATS = {'float', 'double', 'long double'}
LIT_SUFFIX = {'int': '', 'unsigned int': 'u', 'long': 'l', 'unsigned long': 'ul', 'long long': 'll',
              'unsigned long long': 'ull'}

FUNC_KINDS = ('FunctionDecl', 'CXXMethodDecl', 'CXXConstructorDecl', 'CXXConversionDecl')
SKIP_KINDS_SUFFIX = ('Comment', 'Attr')


def is_skip(n):
    k = n.get('kind', '')
    return k.endswith(SKIP_KINDS_SUFFIX)


def kids(n):
    return [c for c in n.get('inner', []) if isinstance(c, dict) and not is_skip(c)]


class Ty:
    """C type: base name + ref kind ('', 'lref', 'cref', 'rref') + pointer depth"""
    __slots__ = ('base', 'ref', 'ptr', 'const')

    def __init__(self, base, ref='', ptr=0, const=False):
        self.base, self.ref, self.ptr, self.const = base, ref, ptr, const

    def c(self):
        return self.base + ' *' * self.ptr

    def is_struct(self):
        return self.base not in SIZEOF and self.base != 'void'

    def __repr__(self):
        return 'Ty(%s,%s,%d)' % (self.base, self.ref, self.ptr)


class AST:
    def __init__(self, root):
        self.root = root
        self.by_id = {}
        self.fn_def_by_mangled = {}
        self.parent_record = {}      # method/ctor id -> record node
        self.global_typedefs = {}
        self.ambiguous = set()
        self.records = {}            # qualified record name -> node (complete definition)
        self.qualname = {}           # id -> qualified scope prefix
        self.loc = {}                # id -> (file, line)
        self.var_scope_global = set()
        self.rec_qual = {}
        self._file = None
        self._line = None
        self._index(root, [], None, False)

    # -- location tracking (clang elides unchanged file/line) ------------------------
    def _track(self, locd):
        if not isinstance(locd, dict):
            return
        for key in ('spellingLoc', 'expansionLoc'):
            if key in locd:
                self._track(locd[key])
        if 'file' in locd:
            self._file = locd['file']
        if 'line' in locd:
            self._line = locd['line']

    def _index(self, n, scope, record, in_fn):
        if not isinstance(n, dict):
            return
        if 'loc' in n:
            self._track(n['loc'])
        rng = n.get('range')
        if rng:
            self._track(rng.get('begin'))
        nid = n.get('id')
        k = n.get('kind')
        if nid and (nid not in self.by_id or ('inner' in n and 'inner' not in self.by_id[nid])):
            self.by_id[nid] = n
            if '_vf_loc' in n:
                self.loc[nid] = tuple(n['_vf_loc'])
            else:
                self.loc[nid] = (self._file, self._line)
                if k in FUNC_KINDS or k in ('VarDecl',):
                    n['_vf_loc'] = [self._file, self._line]
        if rng:
            self._track(rng.get('end'))
        name = n.get('name')
        new_scope = scope
        new_record = record
        new_in_fn = in_fn
        if k == 'NamespaceDecl':
            new_scope = scope + [name or '(anon)']
        elif k in ('CXXRecordDecl', 'ClassTemplateSpecializationDecl'):
            new_scope = scope + [name or '(anon)']
            new_record = n
            if nid:
                self.rec_qual[nid] = '::'.join(scope + [name or '(anon)'])
            if n.get('completeDefinition') and name:
                q = '::'.join(scope + [name])
                if k == 'CXXRecordDecl':
                    self.records.setdefault(q, n)
        elif k in FUNC_KINDS:
            new_in_fn = True
            if record is not None and nid:
                self.parent_record[nid] = record
            elif nid and n.get('parentDeclContextId') in self.rec_qual:
                self.parent_record[nid] = self.by_id[n['parentDeclContextId']]
            if n.get('mangledName') and any(c.get('kind') == 'CompoundStmt' for c in kids(n)):
                self.fn_def_by_mangled.setdefault(n['mangledName'], n)
            elif n.get('mangledName') and (n.get('explicitlyDefaulted') or n.get('isImplicit')):
                pass
        elif k in ('TypedefDecl', 'TypeAliasDecl') and name and not in_fn:
            t = n.get('type', {})
            d = t.get('desugaredQualType') or t.get('qualType')
            if name in self.global_typedefs and self.global_typedefs[name] != d:
                self.ambiguous.add(name)
            self.global_typedefs[name] = d
        elif k in ('VarDecl', 'VarTemplateSpecializationDecl') and not in_fn and nid:
            self.var_scope_global.add(nid)
        if nid:
            self.qualname[nid] = '::'.join(scope)
        for c in n.get('inner', []):
            self._index(c, new_scope, new_record, new_in_fn)

    def fn_by_ref(self, ref_id):
        n = self.by_id.get(ref_id)
        if n is None:
            raise ExtractError('unknown decl id %s' % ref_id)
        return n


def cname_of(mangled):
    return mangled.replace('$', '_S_').replace('.', '_D_')


class Extractor:
    def __init__(self, ast, const_eval=False, log=None):
        self.ast = ast
        self.const_eval = const_eval
        self.funcs = collections.OrderedDict()   # cname -> dict(proto, body, node, ...)
        self.globals = collections.OrderedDict()  # cname -> text
        self.arrays = collections.OrderedDict()
        self.structs = collections.OrderedDict()
        self.helpers = collections.OrderedDict()
        self.pending = []
        self.dropped = collections.Counter()
        self.externals = set()
        self.loops = {}                            # cname -> count
        self.contracts = {}                        # cname -> text inserted between signature and body
        self.loop_contracts = {}                   # (cname, ordinal) -> text
        self.ghost = {}                            # (cname, anchor) -> text
        self.fn_src = {}                           # cname -> (file,line,qualified name)
        self.sideeffect_args = []                  # (fn, call) where an argument expression has a side effect
        self.if_nodes = {}                         # cname -> {if ordinal: IfStmt node}

    # ------------------------------------------------------------------ types
    def resolve(self, tdict, fn=None):
        if tdict is None:
            raise ExtractError('missing type')
        q = tdict.get('desugaredQualType') or tdict.get('qualType')
        return self.resolve_str(q, fn, tdict.get('qualType'))

    def resolve_str(self, q, fn=None, orig=None):
        s = q.strip()
        ref = ''
        if s.endswith('&&'):
            ref = 'rref'
            s = s[:-2].strip()
        elif s.endswith('&'):
            ref = 'lref'
            s = s[:-1].strip()
        ptr = 0
        const = False
        while True:
            if s.endswith('*'):
                ptr += 1
                s = s[:-1].strip()
            elif s.endswith(' const'):
                s = s[:-6].strip()
                const = True
            elif s.endswith('*const'):
                s = s[:-5].strip()
            else:
                break
        if s.startswith('const '):
            s = s[6:].strip()
            const = True
        if s.startswith('volatile '):
            raise ExtractError('volatile type ' + q)
        if s.startswith('struct '):
            s = s[7:]
        if ref == 'lref' and const and ptr == 0:
            ref = 'cref'
        base = self._base(s, fn, q)
        return Ty(base, ref, ptr, const)

    def _base(self, s, fn, q):
        if s in BUILTIN:
            return BUILTIN[s]
        if fn is not None and s in fn.aliases:
            return self.resolve_str(fn.aliases[s], fn).base
        if s in self.ast.records:
            return self._struct(s)
        if fn is not None and '::' in s and s.split('::')[-1] in fn.aliases and fn.aliases[s.split('::')[-1]] != s:
            return self.resolve_str(fn.aliases[s.split('::')[-1]], fn).base
        m = re.match(r'^std::array<(.+), \d+>::(value_type|reference|const_reference)$', s)
        if m:
            return self.resolve_str(m.group(1), fn).base
        m = re.match(r'^std::array<(.+), (\d+)>$', s)
        if m:
            return 'ARRAY<%s,%s>' % (self.resolve_str(m.group(1), fn).base, m.group(2))
        # typedef name, possibly qualified
        short = s.split('::')[-1]
        if short in self.ast.global_typedefs and short not in self.ast.ambiguous:
            return self.resolve_str(self.ast.global_typedefs[short], fn).base
        raise ExtractError('cannot resolve type %r (from %r)' % (s, q))

    def _struct(self, qname):
        cn = qname.split('::')[-1]
        if cn in self.structs:
            return cn
        rec = self.ast.records[qname]
        fields = []
        for c in kids(rec):
            if c.get('kind') == 'FieldDecl':
                fields.append((self.resolve(c['type']).c(), c['name']))
            elif c.get('kind') in ('CXXRecordDecl',) and c.get('isImplicit'):
                pass
            elif c.get('kind') in ('CXXConstructorDecl', 'CXXDestructorDecl', 'CXXMethodDecl', 'CXXConversionDecl',
                                   'FunctionTemplateDecl', 'AccessSpecDecl', 'CXXRecordDecl'):
                pass
            elif c.get('kind') in ('VarDecl',):
                raise ExtractError('struct %s has static members' % qname)
            else:
                raise ExtractError('struct %s: unexpected member kind %s' % (qname, c.get('kind')))
        for b in rec.get('bases', []):
            raise ExtractError('struct %s has base classes' % qname)
        if not fields:
            fields = [('char', 'vf_empty')]     # stateless functor (C has no empty structs)
        self.structs[cn] = fields
        return cn

    # -------------------------------------------------------------- functions
    def require_mangled(self, mangled):
        node = self.ast.fn_def_by_mangled.get(mangled)
        if node is None:
            raise ExtractError('no definition with mangled name %s' % mangled)
        return self.require_node(node)

    def require_node(self, node):
        """node: any declaration of a function; find the definition."""
        mangled = node.get('mangledName')
        d = None
        if mangled:
            d = self.ast.fn_def_by_mangled.get(mangled)
        if d is None:
            if any(c.get('kind') == 'CompoundStmt' for c in kids(node)):
                d = node
        if d is None:
            raise ExtractError('function %s (%s) has no body in the AST' % (node.get('name'), mangled))
        cn = cname_of(d['mangledName'])
        if cn not in self.funcs:
            self.funcs[cn] = None   # reserve (recursion guard)
            self.funcs[cn] = FnTranslator(self, d, cn).translate()
        return cn

    def global_accessor(self, var):
        """constexpr variable at namespace / class scope -> accessor function"""
        mangled = var.get('mangledName') or ('var_' + var['id'])
        cn = 'g_' + cname_of(mangled)
        if cn in self.globals:
            return cn
        ty = self.resolve(var['type'])
        if ty.base.startswith('ARRAY<'):
            raise ExtractError('array global reached accessor path')
        init = [c for c in kids(var) if c.get('kind') not in ('TemplateArgument',) and 'Type' not in c.get('kind', '')
                and not c.get('kind', '').endswith('Decl')]
        if not init:
            raise ExtractError('global %s has no initialiser' % var.get('name'))
        if not var.get('constexpr') and not ty.const:
            raise ExtractError('global %s is mutable' % var.get('name'))
        self.globals[cn] = None
        ft = FnTranslator(self, None, cn)
        body = ft.expr(init[-1])
        text = 'static %s %s(void) { %s return %s; }' % (ty.c(), cn, ft.temp_decls(), body)
        self.globals[cn] = ('static %s %s(void);' % (ty.c(), cn), text)
        return cn

    def array_global(self, var):
        name = var['name']
        if name in self.arrays:
            return name
        ty = self.resolve(var['type'])
        m = re.match(r'ARRAY<(.+),(\d+)>', ty.base)
        elem, n = m.group(1), int(m.group(2))
        vals = []

        def collect(e):
            k = e.get('kind')
            if k == 'InitListExpr':
                for c in kids(e):
                    collect(c)
            elif k in ('IntegerLiteral',):
                vals.append(int(e['value']))
            elif k == 'UnaryOperator' and e.get('opcode') == '-':
                sub = []
                save = vals[:]
                del vals[:]
                collect(kids(e)[0])
                sub = vals[:]
                del vals[:]
                vals.extend(save)
                if len(sub) != 1:
                    raise ExtractError('array init: bad negation')
                vals.append(-sub[0])
            elif k in ('ImplicitCastExpr', 'ExprWithCleanups', 'CXXConstructExpr', 'MaterializeTemporaryExpr',
                       'ParenExpr', 'ConstantExpr', 'CXXFunctionalCastExpr', 'CXXStaticCastExpr'):
                for c in kids(e):
                    collect(c)
            elif k == 'ImplicitValueInitExpr':
                vals.append(0)
            else:
                raise ExtractError('array init: node %s' % k)
        init = [c for c in kids(var) if c.get('kind') in ('InitListExpr', 'ExprWithCleanups', 'CXXConstructExpr')]
        if not init:
            raise ExtractError('array %s without initialiser' % name)
        collect(init[-1])
        if len(vals) != n:
            raise ExtractError('array %s: %d initialisers for %d elements' % (name, len(vals), n))
        lo, hi = -(1 << (SIZEOF[elem] * 8 - 1)), (1 << (SIZEOF[elem] * 8)) - 1
        for v in vals:
            if not (lo <= v <= hi):
                raise ExtractError('array %s: value %d out of element range' % (name, v))
        suffix = 'll' if elem in ('long', 'long long') else ''
        self.arrays[name] = (elem, n, vals)
        return name

    def names_referenced_after_if(self, cname, iford, inclusive=False):
        """names of parameters / locals referenced by the statements that FOLLOW the given (top-level) if statement in
        the body of function cname -- used to state that the rest of a function depends on its inputs only through
        the variables observed at that cut point"""
        f = self.funcs[cname]
        body = [c for c in kids(f['node']) if c.get('kind') == 'CompoundStmt'][0]
        target = self.if_nodes.get(cname, {}).get(iford)
        stmts = kids(body)
        idx = [i for i, st in enumerate(stmts) if st is target]
        if not idx:
            raise ExtractError('%s: if statement #%d is not a top-level statement of the body' % (cname, iford))
        names = set()

        def walk(n):
            if n.get('kind') == 'DeclRefExpr' and n.get('referencedDecl', {}).get('kind') in ('ParmVarDecl', 'VarDecl'):
                names.add(n['referencedDecl'].get('name'))
            for c in kids(n):
                walk(c)
        for st in stmts[idx[0] + (0 if inclusive else 1):]:
            walk(st)
        return names

    # ------------------------------------------------------------------- emit
    def float_to_int_helper(self, src, dst):
        key = 'vf_f2i_%s_%s' % (src.replace(' ', '_'), dst.replace(' ', '_'))
        if key in self.helpers:
            return key
        if dst in SIGNED_INT:
            bits = SIGNED_INT[dst]
            hi = float(2 ** (bits - 1))
            if bits >= 64 or src == 'float' and bits >= 32:
                cond = '((double)x >= %r && (double)x < %r)' % (-hi, hi)
            else:
                cond = '((double)x > %r && (double)x < %r)' % (-hi - 1.0, hi)
        elif dst in UNSIGNED_INT:
            bits = UNSIGNED_INT[dst]
            cond = '((double)x > -1.0 && (double)x < %r)' % float(2 ** bits)
        else:
            raise ExtractError('float->int helper for %s' % dst)
        if src == 'long double':
            raise ExtractError('long double -> integer conversion')
        self.helpers[key] = ('static inline %s %s(%s x) { __CPROVER_assert(%s, "float-to-integer conversion in range of %s"); return (%s)x; }'
                             % (dst, key, src, cond, dst, dst))
        return key

    def emit(self, extra_prelude='', extra_tail=''):
        out = []
        out.append('/* generated by vfx/extract.py from clang AST -- do not edit */')
        out.append('#include <stdint.h>\n#include <stddef.h>')
        out.append('#ifndef __CPROVER__VF\n#define __CPROVER_assert(c,m) ((void)0)\n#define __CPROVER_assume(c) ((void)0)\n#endif')
        for cn, fields in self.structs.items():
            out.append('typedef struct %s { %s } %s;' % (cn, ' '.join('%s %s;' % f for f in fields), cn))
        out.append(extra_prelude)
        for name, (elem, n, vals) in self.arrays.items():
            suffix = 'l' if elem == 'long' else ('ll' if elem == 'long long' else '')
            out.append('static const %s %s[%d] = {%s};' % (elem, name, n, ', '.join(
                ('(%d%s)' % (v, suffix)) for v in vals)))
        for k, v in self.helpers.items():
            out.append(v)
        for cn, g in self.globals.items():
            out.append(g[0])
        for cn, f in self.funcs.items():
            out.append(f['proto'] + ';')
        out.append('')
        for cn, g in self.globals.items():
            out.append(g[1])
        out.append('')
        for cn, f in self.funcs.items():
            src = self.fn_src.get(cn)
            if src:
                out.append('/* %s  [%s:%s] */' % (src[2], src[0], src[1]))
            out.append(f['proto'])
            if cn in self.contracts:
                out.append(self.contracts[cn])
            out.append(f['body'])
            out.append('')
        out.append(extra_tail)
        return '\n'.join(out)


class FnTranslator:
    def __init__(self, ex, node, cname):
        self.ex = ex
        self.ast = ex.ast
        self.node = node
        self.cname = cname
        self.aliases = {}
        self.ref_decls = set()      # decl ids of lref params / locals (pointer in C)
        self.ntemp = 0
        self.temps = []
        self.loop_ord = 0
        self.if_ord = 0
        self.ret_is_ref = False
        self.this_record = None
        self.indent = 1

    def temp_decls(self):
        return ' '.join(self.temps)

    # ---------------------------------------------------------------- helpers
    def ty(self, n):
        return self.ex.resolve(n['type'], self)

    def fail(self, n, why):
        loc = self.ast.loc.get(n.get('id'), ('?', '?'))
        raise ExtractError('%s: %s (node %s %s at %s:%s)' % (self.cname, why, n.get('kind'), n.get('id'), loc[0], loc[1]))

    def collect_aliases(self, n, top=True):
        if top and n.get('id') in self.ast.parent_record:
            for c in kids(self.ast.parent_record[n['id']]):
                if c.get('kind') in ('TypeAliasDecl', 'TypedefDecl'):
                    self.collect_aliases(c, False)
        k = n.get('kind')
        if k in ('TypeAliasDecl', 'TypedefDecl'):
            t = n.get('type', {})
            self.aliases[n['name']] = t.get('desugaredQualType') or t.get('qualType')
        for c in kids(n):
            self.collect_aliases(c, False)

    # -------------------------------------------------------------- translate
    def translate(self):
        n = self.node
        ex = self.ex
        self.collect_aliases(n)
        kind = n['kind']
        params = [c for c in kids(n) if c.get('kind') == 'ParmVarDecl']
        body = [c for c in kids(n) if c.get('kind') == 'CompoundStmt'][0]
        fq = n['type']['qualType']
        plist = []
        self.params = []
        for i, p in enumerate(params):
            t = self.ty(p)
            pname = p.get('name') or ('unnamed%d' % i)
            if t.ref == 'lref':
                self.ref_decls.add(p['id'])
                plist.append('%s *%s' % (t.c(), pname))
            else:
                plist.append('%s %s' % (t.c(), pname))
            self.params.append((pname, t))
        rec = self.ast.parent_record.get(n['id'])
        pre_stmts = []
        post_stmts = []
        if kind == 'CXXConstructorDecl':
            recq = self.ast.rec_qual[self.ast.parent_record[n['id']]['id']]
            sname = ex._struct(recq)
            rett = Ty(sname)
            self.this_record = sname
            pre_stmts.append('%s this_;' % sname)
            inits = [c for c in n.get('inner', []) if c.get('kind') == 'CXXCtorInitializer']
            fields = [f[1] for f in ex.structs[sname]]
            done = set()
            for ci in inits:
                fld = ci.get('anyInit', {}).get('name')
                if fld is None:
                    self.fail(n, 'ctor initialiser without field (delegating/base)')
                e = kids(ci)
                if len(e) != 1:
                    self.fail(n, 'ctor initialiser arity')
                pre_stmts.append('this_.%s = %s;' % (fld, self.expr(e[0])))
                done.add(fld)
            for f in fields:
                if f not in done:
                    pre_stmts.insert(1, 'this_.%s = 0; /* default member initialiser {} */' % f)
            post_stmts.append('return this_;')
        elif kind in ('CXXMethodDecl', 'CXXConversionDecl') and n.get('storageClass') != 'static':
            recq = self.ast.rec_qual[self.ast.parent_record[n['id']]['id']]
            sname = ex._struct(recq)
            self.this_record = sname
            if 'const' not in fq.split(')')[-1]:
                self.fail(n, 'non-const member function')
            plist.insert(0, '%s this_' % sname)
            self.params.insert(0, ('this_', Ty(sname)))
            rett = self.ret_type(n, body, fq)
        else:
            rett = self.ret_type(n, body, fq)
        if rett.ref == 'lref':
            self.ret_is_ref = True
            rets = rett.c() + ' *'
        else:
            rets = rett.c()
        self.rett = rett
        proto = '%s %s(%s)' % (rets, self.cname, ', '.join(plist) if plist else 'void')
        self.ex.fn_src[self.cname] = self.ast.loc.get(n['id'], ('?', '?')) + (
            (self.ast.qualname.get(n['id'], '') + '::' + n.get('name', '?')) + '  ' + fq,)
        btxt = self.compound(body, pre_stmts, post_stmts)
        ex.loops[self.cname] = self.loop_ord
        return {'proto': proto, 'body': btxt, 'params': self.params, 'ret': rett, 'node': n,
                'name': n.get('name'), 'qual': self.ast.qualname.get(n['id'], ''), 'type': fq}

    def ret_type(self, n, body, fq):
        # the declared return type is the prefix of the function type string; typedef sugar
        # is resolved through the function's own aliases, then global typedefs.
        depth = 0
        idx = None
        for i, ch in enumerate(fq):
            if ch == '<':
                depth += 1
            elif ch == '>':
                depth -= 1
            elif ch == '(' and depth == 0:
                idx = i
                break
        rs = fq[:idx].strip()
        if rs in ('auto', 'decltype(auto)'):
            self.fail(n, 'undeduced return type')
        try:
            return self.ex.resolve_str(rs, self)
        except ExtractError:
            # sugar naming an alias local to another function (deduced `auto`): take the
            # desugared type of the returned expression instead
            d = self.ast.fn_def_by_mangled.get(n.get('mangledName'), n)
            rets = []

            def find(x):
                if x.get('kind') == 'ReturnStmt':
                    rets.append(x)
                for c in kids(x):
                    find(c)
            find(d)
            for r in rets:
                e = kids(r)
                if e and e[0].get('type', {}).get('desugaredQualType'):
                    return self.ex.resolve_str(e[0]['type']['desugaredQualType'], self)
            raise

    # ------------------------------------------------------------- statements
    def ind(self):
        return '  ' * self.indent

    def compound(self, n, pre=(), post=()):
        self.indent += 1
        lines = []
        for s in pre:
            lines.append(self.ind() + s)
        mark = len(lines)
        for c in kids(n):
            lines.extend(self.stmt(c))
        for s in post:
            lines.append(self.ind() + s)
        self.indent -= 1
        if self.indent == 1 and self.temps:
            lines.insert(mark, '    ' + ' '.join(self.temps))
        return self.ind() + '{\n' + '\n'.join(lines) + '\n' + self.ind() + '}'

    def block(self, n):
        """statement as a braced block string"""
        if n.get('kind') == 'CompoundStmt':
            return self.compound(n)
        self.indent += 1
        body = self.stmt(n)
        self.indent -= 1
        return self.ind() + '{\n' + '\n'.join(body) + '\n' + self.ind() + '}'

    def stmt(self, n):
        k = n.get('kind')
        I = self.ind()
        if k == 'CompoundStmt':
            return [self.compound(n)]
        if k == 'NullStmt':
            return [I + ';']
        if k == 'DeclStmt':
            out = []
            for d in kids(n):
                dk = d.get('kind')
                if dk in ('TypeAliasDecl', 'TypedefDecl', 'UsingDecl', 'StaticAssertDecl', 'UsingDirectiveDecl'):
                    self.ex.dropped[dk] += 1
                    continue
                if dk != 'VarDecl':
                    self.fail(d, 'unsupported declaration in body')
                out.append(I + self.vardecl(d))
            return out
        if k == 'ReturnStmt':
            e = kids(n)
            if not e:
                return [I + 'return;']
            x = self.expr(e[0])
            if self.ret_is_ref:
                x = self.addr(e[0])
            return [I + 'return %s;' % x]
        if k == 'IfStmt':
            ch = kids(n)
            if n.get('hasInit') or n.get('hasVar'):
                self.fail(n, 'if with init/var')
            if n.get('isConstexpr'):
                cond = ch[0]
                if cond.get('kind') != 'ConstantExpr' or cond.get('value') not in ('true', 'false'):
                    self.fail(n, 'if constexpr without evaluated condition')
                self.ex.dropped['if-constexpr-discarded-branch'] += 1
                if cond['value'] == 'true':
                    return self.stmt(ch[1])
                if n.get('hasElse'):
                    return self.stmt(ch[2])
                return [I + ';']
            self.if_ord += 1
            iford = self.if_ord
            out = []
            gb = self.ex.ghost.get((self.cname, ('before_if', iford)))
            if gb:
                out.append(I + gb)
            out.append(I + 'if (%s)' % self.expr(ch[0]))
            out.append(self.block_with_ghost(ch[1], ('if_then_begin', iford)))
            if n.get('hasElse'):
                out.append(I + 'else')
                out.append(self.block(ch[2]))
            g = self.ex.ghost.get((self.cname, ('after_if', iford)))
            if g:
                out.append(I + g)
            self.ex.if_nodes.setdefault(self.cname, {})[iford] = n
            return out
        if k == 'WhileStmt':
            ch = kids(n)
            self.loop_ord += 1
            lo = self.loop_ord
            out = []
            g = self.ex.ghost.get((self.cname, ('loop_before', lo)))
            if g:
                out.append(I + g)
            out.append(I + 'while (%s)' % self.expr(ch[0]))
            lc = self.ex.loop_contracts.get((self.cname, lo))
            if lc:
                out.append(I + lc)
            out.append(self.block_with_ghost(ch[1], None, ('loop_body_end', lo)))
            return out
        if k == 'ForStmt':
            ch = [c for c in n.get('inner', [])]
            if len(ch) != 5:
                self.fail(n, 'for statement shape')
            self.loop_ord += 1
            lo = self.loop_ord
            init, condvar, cond, inc, body = ch
            out = [I + '{']
            self.indent += 1
            if init:
                out.extend(self.stmt(init))
            if condvar:
                self.fail(n, 'for with condition variable')
            g = self.ex.ghost.get((self.cname, ('loop_before', lo)))
            if g:
                out.append(self.ind() + g)
            out.append(self.ind() + 'for (; %s; %s)' % (self.expr(cond) if cond else '1', self.expr(inc) if inc else ''))
            lc = self.ex.loop_contracts.get((self.cname, lo))
            if lc:
                out.append(self.ind() + lc)
            out.append(self.block_with_ghost(body, None, ('loop_body_end', lo)))
            self.indent -= 1
            out.append(I + '}')
            return out
        if k == 'BreakStmt':
            return [I + 'break;']
        if k == 'ContinueStmt':
            return [I + 'continue;']
        if k == 'DoStmt':
            self.fail(n, 'do statement')
        if 'Expr' in k or 'Operator' in k or 'Literal' in k:
            return [I + self.expr(n) + ';']
        self.fail(n, 'unsupported statement')

    def block_with_ghost(self, n, begin_anchor=None, end_anchor=None):
        gb = self.ex.ghost.get((self.cname, begin_anchor)) if begin_anchor else None
        ge = self.ex.ghost.get((self.cname, end_anchor)) if end_anchor else None
        if not gb and not ge:
            return self.block(n)
        pre = [gb] if gb else []
        post = [ge] if ge else []
        if n.get('kind') == 'CompoundStmt':
            return self.compound(n, pre, post)
        self.indent += 1
        body = [self.ind() + s for s in pre] + self.stmt(n) + [self.ind() + s for s in post]
        self.indent -= 1
        return self.ind() + '{\n' + '\n'.join(body) + '\n' + self.ind() + '}'

    def vardecl(self, d):
        t = self.ty(d)
        name = d['name']
        init = [c for c in kids(d)]
        if d.get('storageClass') == 'static':
            self.fail(d, 'static local')
        if t.base.startswith('ARRAY<'):
            self.fail(d, 'local array')
        if t.ref == 'lref':
            self.ref_decls.add(d['id'])
            if not init:
                self.fail(d, 'reference without init')
            return '%s *%s = %s;' % (t.c(), name, self.addr(init[-1]))
        if not init:
            if t.is_struct():
                self.fail(d, 'struct local without constructor call')
            return '%s %s;' % (t.c(), name)
        return '%s %s = %s;' % (t.c(), name, self.expr(init[-1]))

    # ------------------------------------------------------------ expressions
    def addr(self, n):
        """C expression for the address of the lvalue denoted by n"""
        k = n.get('kind')
        if k in ('ParenExpr', 'ExprWithCleanups', 'MaterializeTemporaryExpr') or (
                k == 'ImplicitCastExpr' and n.get('castKind') == 'NoOp'):
            return self.addr(kids(n)[-1])
        if k == 'DeclRefExpr':
            r = n['referencedDecl']
            if r['id'] in self.ref_decls:
                return r['name']
        if n.get('valueCategory') == 'prvalue':
            # temporary bound to a (non-const) reference: materialise
            t = self.ty(n)
            self.ntemp += 1
            tn = 'vf_tmp%d' % self.ntemp
            self.temps.append('%s %s;' % (t.c(), tn))
            return '(%s = %s, &%s)' % (tn, self.expr(n), tn)
        x = self.expr(n)
        if x.startswith('(*') and x.endswith(')') and x.count('(') == 1:
            return x[2:-1]
        return '(&%s)' % x

    def cast_to(self, t, x):
        return '((%s)%s)' % (t.c(), x)

    def literal_int(self, n):
        t = self.ty(n)
        v = n['value']
        if t.base in LIT_SUFFIX:
            return v + LIT_SUFFIX[t.base]
        if t.base in ('unsigned char', 'unsigned short', 'short', 'signed char', 'char', '_Bool'):
            return '((%s)%s)' % (t.base, v)
        self.fail(n, 'integer literal of type ' + t.base)

    def expr(self, n):
        k = n.get('kind')
        m = getattr(self, 'e_' + k, None)
        if m is None:
            self.fail(n, 'unsupported expression')
        return m(n)

    def e_IntegerLiteral(self, n):
        return self.literal_int(n)

    def e_CXXBoolLiteralExpr(self, n):
        return '((_Bool)1)' if n['value'] else '((_Bool)0)'

    def e_FloatingLiteral(self, n):
        t = self.ty(n)
        v = n['value']
        if not re.match(r'^[0-9.eE+-]+$', v):
            self.fail(n, 'floating literal ' + v)
        if '.' not in v and 'e' not in v and 'E' not in v:
            v += '.0'
        return v + {'float': 'f', 'double': '', 'long double': 'L'}[t.base]

    def e_ParenExpr(self, n):
        return '(' + self.expr(kids(n)[0]) + ')'

    def passthrough(self, n):
        return self.expr(kids(n)[-1])

    e_ExprWithCleanups = passthrough
    e_MaterializeTemporaryExpr = passthrough
    e_CXXBindTemporaryExpr = passthrough
    e_SubstNonTypeTemplateParmExpr = passthrough

    def e_ConstantExpr(self, n):
        t = self.ty(n)
        if 'value' in n and (t.base in SIGNED_INT or t.base in UNSIGNED_INT):
            v = n['value']
            if v == 'true':
                return '((_Bool)1)'
            if v == 'false':
                return '((_Bool)0)'
            if re.match(r'^-?\d+$', v):
                return '((%s)%s%s)' % (t.base, v, 'll' if abs(int(v)) > 2 ** 31 else '')
        return self.passthrough(n)

    def e_BinaryOperator(self, n):
        a, b = kids(n)
        op = n['opcode']
        if op in ('.*', '->*'):
            self.fail(n, 'member pointer')
        if op == '<=>':
            self.fail(n, 'spaceship')
        return '(%s %s %s)' % (self.expr(a), op, self.expr(b))

    def e_CompoundAssignOperator(self, n):
        a, b = kids(n)
        lt = self.ex.resolve(n['computeLHSType'], self)
        tt = self.ty(a)
        # C++: E1 op= E2 is E1 = (T1)((computeLHSType)E1 op E2); identical to C when the
        # computation type is what C's usual arithmetic conversions give. Printed as-is.
        return '(%s %s %s)' % (self.expr(a), n['opcode'], self.expr(b))

    def e_UnaryOperator(self, n):
        (a,) = kids(n)
        op = n['opcode']
        if op in ('++', '--'):
            if n.get('isPostfix'):
                return '(%s%s)' % (self.expr(a), op)
            return '(%s%s)' % (op, self.expr(a))
        if op == '&':
            return self.addr(a)
        if op == '*':
            return '(*%s)' % self.expr(a)
        if op in ('-', '+', '!', '~'):
            return '(%s%s)' % (op, self.expr(a))
        self.fail(n, 'unary operator ' + op)

    def e_ConditionalOperator(self, n):
        c, a, b = kids(n)
        return '(%s ? %s : %s)' % (self.expr(c), self.expr(a), self.expr(b))

    def cast_common(self, n):
        ck = n.get('castKind')
        (a,) = kids(n)[-1:]
        if ck in ('LValueToRValue', 'NoOp', 'ConstructorConversion', 'UserDefinedConversion'):
            return self.expr(a)
        t = self.ty(n)
        if ck in ('IntegralCast', 'IntegralToFloating', 'FloatingCast', 'BooleanToSignedIntegral'):
            return self.cast_to(t, self.expr(a))
        if ck == 'FloatingToIntegral':
            st = self.ty(a)
            h = self.ex.float_to_int_helper(st.base, t.base)
            return '%s(%s)' % (h, self.expr(a))
        if ck in ('IntegralToBoolean', 'FloatingToBoolean'):
            return '((_Bool)(%s != 0))' % self.expr(a)
        if ck in ('FunctionToPointerDecay', 'BuiltinFnToFnPtr'):
            self.fail(n, 'function pointer outside callee position')
        if ck == 'ArrayToPointerDecay':
            return self.expr(a)
        if ck == 'ToVoid':
            return '((void)%s)' % self.expr(a)
        self.fail(n, 'cast kind %s' % ck)

    e_ImplicitCastExpr = cast_common
    e_CStyleCastExpr = cast_common
    e_CXXStaticCastExpr = cast_common
    e_CXXFunctionalCastExpr = cast_common

    def e_BuiltinBitCastExpr(self, n):
        t = self.ty(n)
        a = kids(n)[-1]
        st = self.ty(a)
        if t.is_struct() or st.is_struct() or SIZEOF.get(t.base) != SIZEOF.get(st.base):
            self.fail(n, 'bit_cast between %s and %s' % (st.base, t.base))
        h = 'vf_bitcast_%s_%s' % (st.base.replace(' ', '_'), t.base.replace(' ', '_'))
        if h not in self.ex.helpers:
            self.ex.helpers[h] = 'static inline %s %s(%s x) { union { %s a; %s b; } u; u.a = x; return u.b; }' % (
                t.base, h, st.base, st.base, t.base)
        return '%s(%s)' % (h, self.expr(a))

    def e_ImplicitValueInitExpr(self, n):
        t = self.ty(n)
        if t.is_struct():
            return '((%s){0})' % t.c()
        return '((%s)0)' % t.c()

    e_CXXScalarValueInitExpr = e_ImplicitValueInitExpr

    def e_InitListExpr(self, n):
        t = self.ty(n)
        ch = kids(n)
        if t.is_struct():
            # `T x{ prvalue_of_T }` : list-initialisation from a single element of the same class type is a copy
            if len(ch) == 1 and self.ty(ch[0]).base == t.base and self.ty(ch[0]).ptr == 0:
                return self.expr(ch[0])
            self.fail(n, 'aggregate initialisation of a struct')
        if len(ch) == 0:
            return '((%s)0)' % t.c()
        if len(ch) == 1:
            return self.expr(ch[0])
        self.fail(n, 'init list with %d elements' % len(ch))

    def e_CXXThisExpr(self, n):
        return '(&this_)'

    def e_MemberExpr(self, n):
        (b,) = kids(n)
        if n.get('isArrow'):
            bx = self.expr(b)
            if bx == '(&this_)':
                return 'this_.%s' % n['name']
            return '%s->%s' % (bx, n['name'])
        return '%s.%s' % (self.expr(b), n['name'])

    def e_ArraySubscriptExpr(self, n):
        a, i = kids(n)
        return '%s[%s]' % (self.expr(a), self.expr(i))

    def e_UnaryExprOrTypeTraitExpr(self, n):
        if n.get('name') != 'sizeof':
            self.fail(n, 'type trait ' + str(n.get('name')))
        if 'argType' in n:
            t = self.ex.resolve(n['argType'], self)
        else:
            t = self.ty(kids(n)[0])
        if t.base not in SIZEOF or t.ptr:
            self.fail(n, 'sizeof ' + t.base)
        return '((unsigned long)%d)' % SIZEOF[t.base]

    def e_DeclRefExpr(self, n):
        r = n['referencedDecl']
        rk = r['kind']
        if rk in ('ParmVarDecl',):
            if r['id'] in self.ref_decls:
                return '(*%s)' % r['name']
            return r['name']
        if rk in ('VarDecl', 'VarTemplateSpecializationDecl'):
            if r['id'] in self.ast.var_scope_global:
                var = self.ast.by_id[r['id']]
                ty = self.ex.resolve(var['type'], self)
                if ty.base.startswith('ARRAY<'):
                    return self.ex.array_global(var)
                # a redeclaration may carry no initialiser; find the one that does
                if not any('Expr' in c.get('kind', '') or 'Literal' in c.get('kind', '') for c in kids(var)):
                    cand = [v for v in (self.ast.by_id.get(i) for i in self.ast.var_scope_global)
                            if v.get('mangledName') and v.get('mangledName') == var.get('mangledName')
                            and any('Expr' in c.get('kind', '') or 'Literal' in c.get('kind', '') for c in kids(v))]
                    if not cand:
                        self.fail(n, 'global variable without visible initialiser')
                    var = cand[0]
                return '%s()' % self.ex.global_accessor(var)
            if r['id'] in self.ref_decls:
                return '(*%s)' % r['name']
            return r['name']
        if rk == 'EnumConstantDecl':
            self.fail(n, 'enum constant')
        self.fail(n, 'reference to %s' % rk)

    # ---- calls
    def callee_decl(self, c):
        while c.get('kind') in ('ImplicitCastExpr', 'ParenExpr'):
            c = kids(c)[0]
        if c.get('kind') == 'DeclRefExpr':
            return self.ast.by_id.get(c['referencedDecl']['id']) or c['referencedDecl']
        if c.get('kind') == 'MemberExpr':
            mid = c.get('referencedMemberDecl')
            return self.ast.by_id[mid]
        self.fail(c, 'callee expression')

    def args_for(self, decl, args, n):
        params = [c for c in kids(decl) if c.get('kind') == 'ParmVarDecl']
        if len(params) != len(args):
            # default arguments appear as CXXDefaultArgExpr nodes; arity must match
            self.fail(n, 'arity mismatch calling %s' % decl.get('name'))
        out = []
        for p, a in zip(params, args):
            pt = self.ex.resolve(p['type'], self)
            if pt.ref == 'lref':
                out.append(self.addr(a))
            else:
                out.append(self.expr(a))
            if self.has_side_effect(a):
                self.ex.sideeffect_args.append((self.cname, decl.get('name')))
        return out

    def has_side_effect(self, a):
        k = a.get('kind')
        if k == 'CompoundAssignOperator':
            return True
        if k == 'BinaryOperator' and a.get('opcode') == '=':
            return True
        if k == 'UnaryOperator' and a.get('opcode') in ('++', '--'):
            return True
        return any(self.has_side_effect(c) for c in kids(a))

    def builtin_call(self, name, args, n):
        ax = [self.expr(a) for a in args]
        if name == '__builtin_expect':
            return '__builtin_expect(%s, %s)' % tuple(ax)
        if name in ('__builtin_clz', '__builtin_clzl', '__builtin_clzll', '__builtin_ctz', '__builtin_ctzl', '__builtin_ctzll'):
            h = 'vf_' + name[10:]
            argt = {'': 'unsigned int', 'l': 'unsigned long', 'll': 'unsigned long long'}[name[13:]]
            if h not in self.ex.helpers:
                self.ex.helpers[h] = ('static inline int %s(%s x) { __CPROVER_assert(x != 0, "%s argument is non-zero"); return %s(x); }'
                                      % (h, argt, name, name))
            return '%s(%s)' % (h, ax[0])
        if name in ('__builtin_mul_overflow', '__builtin_add_overflow', '__builtin_sub_overflow'):
            # GCC/Clang: "performs the operation on the infinite-precision values of both operands and
            # checks whether the result fits the third". CBMC 6.11 converts mixed-signedness operands to a
            # common type first (measured: 1 * 0xFFFFFFFFFFFFFFFFul -> -1, no overflow), so the builtin is
            # defined here from its documented meaning over __int128.
            ta, tb = self.ty(args[0]), self.ty(args[1])
            tr = self.ty(args[2])
            if tr.ptr != 1 or tr.base not in SIGNED_INT and tr.base not in UNSIGNED_INT:
                self.fail(n, 'overflow builtin result type')
            for t in (ta, tb):
                if t.base not in SIGNED_INT and t.base not in UNSIGNED_INT or t.ptr:
                    self.fail(n, 'overflow builtin operand type')
            if SIZEOF[ta.base] > 8 or SIZEOF[tb.base] > 8 or SIZEOF[tr.base] > 8:
                self.fail(n, 'overflow builtin on 128-bit operands')
            opn = name[10:13]
            if opn == 'mul' and ta.base in UNSIGNED_INT and tb.base in UNSIGNED_INT and SIZEOF[ta.base] == 8 and SIZEOF[tb.base] == 8:
                self.fail(n, 'u64*u64 overflow builtin exceeds the 128-bit model')
            h = 'vf_%s_overflow_%s_%s_%s' % (opn, ta.base.replace(' ', '_'), tb.base.replace(' ', '_'), tr.base.replace(' ', '_'))
            if h not in self.ex.helpers:
                op = {'mul': '*', 'add': '+', 'sub': '-'}[opn]
                self.ex.helpers[h] = ('static inline _Bool %s(%s a, %s b, %s *r) { __int128 p = (__int128)a %s (__int128)b; '
                                      '*r = (%s)p; return p != (__int128)*r; }' % (h, ta.base, tb.base, tr.base, op, tr.base))
            return '%s(%s)' % (h, ', '.join(ax))
        if name == '__builtin_sqrt':
            self.ex.externals.add('vf_sqrt')
            return 'vf_sqrt(%s)' % ax[0]
        if name == '__builtin_is_constant_evaluated':
            return '((_Bool)%d)' % (1 if self.ex.const_eval else 0)
        self.fail(n, 'builtin ' + name)

    def e_CallExpr(self, n):
        ch = kids(n)
        decl = self.callee_decl(ch[0])
        args = ch[1:]
        name = decl.get('name', '')
        if name.startswith('__builtin_'):
            return self.builtin_call(name, args, n)
        if name in ('vf_require', 'vf_ensure', 'vf_cover') and decl.get('mangledName') == name:
            x = self.expr(args[0])
            if name == 'vf_require':
                return '__CPROVER_assume(%s)' % x
            return '__CPROVER_assert(%s, "%s")' % (x, name)
        if decl.get('kind') in ('CXXMethodDecl', 'CXXConversionDecl') and decl.get('storageClass') != 'static':
            return self.member_call(decl, ch[0], args, n)
        q = self.ast.qualname.get(decl.get('id'), '')
        if q == 'std' or q.startswith('std::'):
            # iterator algebra over a table: std::array<T,N>::iterator is T*, so these are plain pointer operations.
            # std::lower_bound itself is external (assumed contract: the result lies in [first, last]).
            if name == 'begin' and len(args) == 1 and self.ty(args[0]).base.startswith('ARRAY<'):
                elem = re.match(r'ARRAY<(.+),(\d+)>', self.ty(args[0]).base).group(1)
                return '((%s *)&%s[0])' % (elem, self.expr(args[0]))
            if name == 'next' and len(args) == 2 and self.ty(args[0]).ptr == 1:
                return '(%s + %s)' % (self.expr(args[0]), self.expr(args[1]))
            if name == 'distance' and len(args) == 2 and self.ty(args[0]).ptr == 1:
                return '((long)(%s - %s))' % (self.expr(args[1]), self.expr(args[0]))
            if name == 'lower_bound' and len(args) == 3 and self.ty(args[0]).ptr == 1 and self.ty(args[0]).base in SIZEOF:
                h = 'vf_lower_bound_' + self.ty(args[0]).base.replace(' ', '_')
                self.ex.externals.add(h)
                return '%s(%s, %s, %s)' % (h, self.expr(args[0]), self.expr(args[1]), self.expr(args[2]))
        if name == 'sqrt' and decl.get('mangledName') == 'sqrt' and decl['type']['qualType'].startswith('double (double)'):
            # the C library's sqrt (std::sqrt(double) is `using ::sqrt`): external, assumed contract
            self.ex.externals.add('vf_sqrt')
            return 'vf_sqrt(%s)' % self.expr(args[0])
        cn = self.ex.require_node(decl)
        ax = self.args_for(decl, args, n)
        call = '%s(%s)' % (cn, ', '.join(ax))
        f = self.ex.funcs.get(cn)
        rt = self.callee_ret(decl)
        if rt.ref == 'lref':
            return '(*%s)' % call
        return call

    def callee_ret(self, decl):
        fq = decl['type']['qualType']
        sub = FnTranslator(self.ex, decl, '?')
        sub.collect_aliases(decl)
        return sub.ret_type(decl, None, fq)

    e_UserDefinedLiteral = e_CallExpr

    def member_call(self, decl, callee, args, n):
        while callee.get('kind') in ('ImplicitCastExpr', 'ParenExpr'):
            callee = kids(callee)[0]
        if callee.get('kind') != 'MemberExpr':
            self.fail(n, 'member call shape')
        obj = kids(callee)[0]
        ox = self.expr(obj)
        if callee.get('isArrow'):
            ox = '(*%s)' % ox
        cn = self.ex.require_node(decl)
        ax = self.args_for(decl, args, n)
        return '%s(%s)' % (cn, ', '.join([ox] + ax))

    e_CXXMemberCallExpr = lambda self, n: self.e_CallExpr(n)

    def e_CXXOperatorCallExpr(self, n):
        ch = kids(n)
        decl = self.callee_decl(ch[0])
        args = ch[1:]
        name = decl.get('name', '')
        if decl.get('kind') == 'CXXMethodDecl':
            recq = self.ast.rec_qual.get(self.ast.parent_record.get(decl['id'], {}).get('id'), '')
            if name == 'operator=' and (decl.get('explicitlyDefaulted') or decl.get('isImplicit')):
                return '(%s = %s)' % (self.expr(args[0]), self.expr(args[1]))
            if name == 'operator[]' and recq.startswith('std::array'):
                return '%s[%s]' % (self.expr(args[0]), self.expr(args[1]))
            if recq.startswith(('fixedmath', 'vfspec')) and decl.get('storageClass') != 'static':
                # user-provided const member operator (functor call): ordinary const member function
                cn = self.ex.require_node(decl)
                ax = self.args_for(decl, args[1:], n)
                return '%s(%s)' % (cn, ', '.join([self.expr(args[0])] + ax))
            self.fail(n, 'member operator %s of %s' % (name, recq))
        cn = self.ex.require_node(decl)
        ax = self.args_for(decl, args, n)
        call = '%s(%s)' % (cn, ', '.join(ax))
        if self.callee_ret(decl).ref == 'lref':
            return '(*%s)' % call
        return call

    def e_CXXConstructExpr(self, n):
        t = self.ty(n)
        args = kids(n)
        ct = n.get('ctorType', {}).get('qualType', '')
        if not t.is_struct():
            self.fail(n, 'construct expr of non-struct')
        m = re.match(r'^void \((.*)\)( noexcept)?$', ct)
        if not m:
            self.fail(n, 'ctor type ' + ct)
        ptypes = m.group(1)
        if len(args) == 0:
            # defaulted default constructor: default member initialisers `{}`
            self._check_default_ctor(t, n)
            return '((%s){0})' % t.c()
        if len(args) == 1:
            pt = self.ex.resolve_str(ptypes, self)
            if pt.base == t.base and pt.ref in ('cref', 'rref'):
                self._check_copy_ctor(t, ptypes, n)
                return self.expr(args[0])
        # converting constructor: find it in the record by its type string
        recq = [q for q in self.ast.records if q.split('::')[-1] == t.base]
        cands = []
        rec = self.ast.records[recq[0]]

        def scan(x):
            for c in kids(x):
                if c.get('kind') == 'CXXConstructorDecl' and c.get('type', {}).get('qualType') == ct and c.get('mangledName'):
                    cands.append(c)
                elif c.get('kind') == 'FunctionTemplateDecl':
                    scan(c)
        scan(rec)
        defs = [c for c in cands if c['mangledName'] in self.ast.fn_def_by_mangled]
        if not defs:
            # out-of-class definition (template ctor defined in math.h)
            names = set(c['mangledName'] for c in cands)
            defs = [self.ast.fn_def_by_mangled[m_] for m_ in names if m_ in self.ast.fn_def_by_mangled]
        if not defs:
            # search all definitions by record + type
            for m_, d in self.ast.fn_def_by_mangled.items():
                if d.get('kind') == 'CXXConstructorDecl' and d['type']['qualType'] == ct and d['id'] in self.ast.parent_record and \
                        self.ast.rec_qual[self.ast.parent_record[d['id']]['id']].split('::')[-1] == t.base:
                    defs.append(d)
        if len(set(d['mangledName'] for d in defs)) != 1:
            self.fail(n, 'constructor %s %s: %d candidates' % (t.base, ct, len(defs)))
        decl = defs[0]
        cn = self.ex.require_node(decl)
        ax = self.args_for(decl, args, n)
        return '%s(%s)' % (cn, ', '.join(ax))

    e_CXXTemporaryObjectExpr = e_CXXConstructExpr

    def _record_ctor(self, t, pred):
        recq = [q for q in self.ast.records if q.split('::')[-1] == t.base]
        rec = self.ast.records[recq[0]]
        return [c for c in kids(rec) if c.get('kind') == 'CXXConstructorDecl' and pred(c)]

    def _check_copy_ctor(self, t, ptypes, n):
        c = self._record_ctor(t, lambda c: re.match(r'^void \(%s\)' % re.escape(ptypes), c['type']['qualType']))
        if not c or not all(x.get('explicitlyDefaulted') or x.get('isImplicit') for x in c):
            self.fail(n, 'copy/move constructor of %s is user-provided' % t.base)

    def _check_default_ctor(self, t, n):
        c = self._record_ctor(t, lambda c: c['type']['qualType'].startswith('void ()'))
        if not c or not all(x.get('explicitlyDefaulted') or x.get('isImplicit') for x in c):
            self.fail(n, 'default constructor of %s is user-provided' % t.base)
        recq = [q for q in self.ast.records if q.split('::')[-1] == t.base]
        for f in kids(self.ast.records[recq[0]]):
            if f.get('kind') == 'FieldDecl':
                init = kids(f)
                if init and not (init[0].get('kind') == 'InitListExpr' and not kids(init[0])):
                    self.fail(n, 'field %s has a non-zero default initialiser' % f.get('name'))


KEEP_NS = ('fixedmath', 'cxx20', 'cxx23', 'vfspec')


def prune(root):
    """drop every top-level declaration (recursively inside namespaces) that is neither in one of
    the library/spec namespaces nor referenced (transitively) from a kept declaration"""
    AST(root)   # annotates _vf_loc
    refs_of = {}

    def refs(n, acc):
        if not isinstance(n, dict):
            return
        for key in ('referencedDecl', 'foundReferencedDecl'):
            r = n.get(key)
            if isinstance(r, dict) and 'id' in r:
                acc.add(r['id'])
        if 'referencedMemberDecl' in n:
            acc.add(n['referencedMemberDecl'])
        if 'parentDeclContextId' in n:
            acc.add(n['parentDeclContextId'])
        for c in n.get('inner', []):
            refs(c, acc)

    def ids(n, acc):
        if not isinstance(n, dict):
            return
        if 'id' in n:
            acc.add(n['id'])
        for c in n.get('inner', []):
            ids(c, acc)

    units = []   # (container list, node, always_keep)

    def scan(container, in_keep):
        for c in container:
            if not isinstance(c, dict):
                continue
            k = c.get('kind')
            if k == 'NamespaceDecl' or k == 'LinkageSpecDecl':
                keep = in_keep or c.get('name') in KEEP_NS
                scan(c.get('inner', []), keep)
            else:
                units.append((c, in_keep or k in ('TypedefDecl', 'TypeAliasDecl')))
    scan(root.get('inner', []), False)
    unit_ids = {}
    for i, (c, keep) in enumerate(units):
        s_ = set()
        ids(c, s_)
        for x in s_:
            unit_ids.setdefault(x, i)
    kept = set(i for i, (c, keep) in enumerate(units) if keep)
    work = list(kept)
    while work:
        i = work.pop()
        acc = set()
        refs(units[i][0], acc)
        for x in acc:
            j = unit_ids.get(x)
            if j is not None and j not in kept:
                kept.add(j)
                work.append(j)
    keep_obj = set(id(units[i][0]) for i in kept)

    def rebuild(container):
        out = []
        for c in container:
            if not isinstance(c, dict):
                continue
            k = c.get('kind')
            if k == 'NamespaceDecl' or k == 'LinkageSpecDecl':
                inner = rebuild(c.get('inner', []))
                if inner:
                    d = dict(c)
                    d['inner'] = inner
                    out.append(d)
            elif id(c) in keep_obj:
                out.append(c)
        return out
    return {'kind': root.get('kind'), 'id': root.get('id'), 'inner': rebuild(root.get('inner', []))}


def load_ast(path):
    with open(path) as f:
        return AST(json.load(f))
