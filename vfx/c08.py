#!/usr/bin/env python3
"""C08 supporting stand-in: build one battery with both compilers at several levels / standards, require identical
digests and constexpr == run time; the deductive part of C08 is in spec/bind.py (C07 + fallback contracts + sqrt lemma)."""
import os, subprocess, concurrent.futures, time
VERIF = os.path.dirname(os.path.dirname(os.path.abspath(__file__)))
REPO = os.environ.get('VF_REPO', '/repo')


def run(tier, seed):
    from vfx import core
    bdir = os.path.join(core.BUILD, 'native', 'c08')
    os.makedirs(bdir, exist_ok=True)
    src = os.path.join(VERIF, 'native', 'c08_battery.cc')
    inc = ['-I' + os.path.join(REPO, 'fixed_lib', 'include'), '-Wno-deprecated-declarations']
    levels = ['-O0', '-O2', '-O3'] if tier == 'quick' else ['-O0', '-O1', '-O2', '-O3']
    cfgs = []
    for cc in ('g++', 'clang++'):
        for std, extra in (('-std=c++17', ['-DFIXEDMATH_ENABLE_SQRT_ABACUS_ALGO']), ('-std=c++20', []), ('-std=c++2b', [])):
            for lv in levels:
                cfgs.append((cc, std, extra, lv))
    t0 = time.time()

    def one(c):
        cc, std, extra, lv = c
        exe = os.path.join(bdir, 'bat_%s_%s_%s' % (cc.replace('+', 'p'), std[-2:], lv[1:]))
        r = subprocess.run([cc, std, lv, '-ffp-contract=off'] + extra + inc + [src, '-o', exe], capture_output=True, text=True)
        if r.returncode != 0:
            return c, None, 'BUILD FAILED (not accepted as constant expression or does not compile):\n' + r.stderr[-1500:]
        r = subprocess.run([exe], capture_output=True, text=True, timeout=600)
        out = r.stdout.strip().split('\n')
        return c, out[-1] if out else '', '\n'.join(out[:-1])
    with concurrent.futures.ThreadPoolExecutor(max_workers=12) as tp:
        res = list(tp.map(one, cfgs))
    digests = {}
    viol = []
    for c, last, extra in res:
        name = ' '.join([c[0], c[1], c[3]] + c[2])
        if last is None:
            viol.append({'id': 'build_' + name.replace(' ', '_'), 'input': {'configuration': name}, 'has_input': True, 'what': extra[:1500]})
            continue
        digests[name] = last
        if 'CE_FAIL 0' not in last:
            viol.append({'id': 'ce_' + name.replace(' ', '_'), 'input': {'configuration': name, 'output': extra[:800]}, 'has_input': True,
                         'what': 'constant evaluation and run-time evaluation differ: ' + extra[:300]})
    vals = set(v.split()[1] for v in digests.values() if v.startswith('DIGEST'))
    if len(vals) > 1:
        viol.append({'id': 'digest_mismatch', 'input': digests, 'has_input': True, 'what': 'results differ between configurations: %s' % digests})
    # sqrt-dependent results: identical within each group of configurations that select the same algorithm at run time
    for algo in ('abacus', 'std'):
        sv = set(v.split()[3] for v in digests.values() if v.startswith('DIGEST') and v.split()[5] == algo)
        if len(sv) > 1:
            viol.append({'id': 'sqrt_digest_mismatch_' + algo, 'input': digests, 'has_input': True,
                         'what': 'sqrt-dependent results differ between configurations selecting the %s algorithm' % algo})
    return {'name': 'c08_battery', 'kind': 'stand-in', 'ok': not viol, 'detail': '%d configurations' % len(cfgs),
            'summary': 'c08_battery: %d compiler/level/standard configurations, %d distinct digests, constexpr==runtime on the boundary set (stand-in)' % (len(cfgs), len(vals)),
            'evaluations': len(cfgs), 'violations': viol, 'samples': [{'configuration': k, 'result': v} for k, v in list(digests.items())[:3]],
            'standin': {'name': 'c08_battery', 'label': 'stand-in (not proved): differential execution across compilers/levels/standards + constexpr acceptance', 'configurations': len(cfgs),
                        'seconds': round(time.time() - t0, 1), 'distinct_digests': len(vals)}}
