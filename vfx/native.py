#!/usr/bin/env python3
"""
vfx.native -- native stand-ins: exhaustive / structured enumeration of the REAL C++ code
against an oracle. Always labelled stand-in (never counted as proved). A stand-in program
prints one JSON object on its last stdout line:
  {"evaluations": N, "failures": K, "first_failures": [{...input..., "what": "..."}], "samples": [...], "exhaustive": bool, "domain": "..."}
"""
import os, sys, json, subprocess, hashlib, time
VERIF = os.path.dirname(os.path.dirname(os.path.abspath(__file__)))
REPO = os.environ.get('VF_REPO', '/repo')


def run_native(name, src, cfg='abacus', args=(), timeout=3600, extra_flags=(), label='stand-in'):
    from vfx import core
    bdir = os.path.join(core.BUILD, 'native')
    os.makedirs(bdir, exist_ok=True)
    exe = os.path.join(bdir, name)
    flags = ['-std=c++17', '-O2', '-fopenmp', '-I' + os.path.join(REPO, 'fixed_lib', 'include'),
             '-I' + os.path.join(REPO, 'fixed_lib', 'src'), '-I' + os.path.join(VERIF, 'spec'),
             '-Wno-deprecated-declarations'] + list(extra_flags)
    if cfg == 'abacus':
        flags.append('-DFIXEDMATH_ENABLE_SQRT_ABACUS_ALGO')
    t0 = time.time()
    r = subprocess.run(['g++'] + flags + [os.path.join(VERIF, 'native', src), os.path.join(VERIF, 'spec', 'native_lib.cc'),
                        '-o', exe, '-lm'], capture_output=True, text=True)
    if r.returncode != 0:
        raise core.Undecided('native stand-in %s does not build against the current tree:\n%s' % (name, r.stderr[-3000:]))
    try:
        r = subprocess.run([exe] + [str(a) for a in args], capture_output=True, text=True, timeout=timeout)
    except subprocess.TimeoutExpired:
        raise core.Undecided('native stand-in %s timed out' % name)
    lines = [l for l in r.stdout.strip().split('\n') if l.strip()]
    try:
        d = json.loads(lines[-1])
    except Exception:
        raise core.Undecided('native stand-in %s: no JSON result (rc=%s): %s %s' % (name, r.returncode, r.stdout[-500:], r.stderr[-1500:]))
    d['seconds'] = round(time.time() - t0, 1)
    viol = []
    for i, f in enumerate(d.get('first_failures', [])[:5]):
        viol.append({'id': '%s_%d' % (name, i), 'input': f, 'has_input': True, 'kind': 'native stand-in counterexample',
                     'what': f.get('what'), 'replay_hint': 'rebuild native/%s and run it; or evaluate the predicate on this input' % src})
    if d.get('failures', 0) and not viol:
        viol.append({'id': '%s_0' % name, 'input': {}, 'has_input': False, 'kind': 'native stand-in counterexample',
                     'what': '%d failing evaluations (the program did not print the inputs)' % d['failures']})
    return {'name': name, 'kind': label, 'ok': d.get('failures', 0) == 0, 'detail': d.get('domain', ''),
            'summary': '%s: %d evaluations, %d failures (%s)' % (name, d.get('evaluations', 0), d.get('failures', 0), label),
            'evaluations': d.get('evaluations', 0), 'violations': viol, 'samples': d.get('samples', [])[:4],
            'standin': {'name': name, 'label': label, 'domain': d.get('domain'), 'evaluations': d.get('evaluations'),
                        'exhaustive': d.get('exhaustive', False), 'failures': d.get('failures', 0), 'seconds': d['seconds'],
                        'oracle': d.get('oracle', '')}}
