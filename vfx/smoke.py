#!/usr/bin/env python3
"""
vfx.smoke -- translation-validation guard for the AST -> C printer (DESIGN.md 3.1 "must-fire self-checks").

For every CBMC unit whose function takes by-value scalar / fixed_t parameters, the extracted C is compiled natively
(contract clauses erased by macros), its symbols are prefixed with vfx_ (objcopy) and it is linked into a C++ driver
that includes the REAL headers. The driver feeds both the real function (the unit's `cxx` expression) and the
extracted one with the same pseudo-random inputs that satisfy the unit's precondition and compares results bit for
bit. A disagreement means the extraction is broken: exit 2 ("extraction broken"), never a VIOLATION.
This is a guard for the extractor, not a verification step; it is labelled so in the evidence.
"""
import os, sys, re, json, subprocess, shutil, concurrent.futures, time
VERIF = os.path.dirname(os.path.dirname(os.path.abspath(__file__)))
REPO = os.environ.get('VF_REPO', '/repo')
sys.path.insert(0, VERIF)

ERASE = '''
#define __CPROVER_requires(...)
#define __CPROVER_ensures(...)
#define __CPROVER_assigns(...)
#define __CPROVER_loop_invariant(...)
#define __CPROVER_decreases(...)
'''
CXX_T = {'fixed_t': 'fixedmath::fixed_t', '_Bool': 'bool'}
GEN = {  # how to draw a value of a C type from a 64-bit random word r (log-uniform magnitudes, frequent edge values)
    'long': 'gen_i64(r)', 'unsigned long': '(unsigned long)gen_i64(r)', 'int': '(int)gen_i64(r)', 'unsigned int': '(unsigned int)gen_i64(r)',
    'short': '(short)gen_i64(r)', 'unsigned short': '(unsigned short)gen_i64(r)', 'signed char': '(signed char)gen_i64(r)',
    'unsigned char': '(unsigned char)gen_i64(r)', '_Bool': '(bool)(r & 1)', 'float': 'gen_f32(r)', 'double': 'gen_f64(r)',
    'fixed_t': 'fixedmath::as_fixed(gen_fix(r))', 'long long': '(long long)gen_i64(r)', 'unsigned long long': '(unsigned long long)gen_i64(r)',
}

DRIVER = r'''
#include <cstdio>
#include <cstring>
#include <cstdint>
#include <cmath>
#include "all.hpp"
#include "native_oracles.hpp"
using namespace vfspec;
struct c_fixed_t { long v; };
extern "C" { @@PROTO@@; double vfx_vf_sqrt(double x) { return std::sqrt(x); } }
static uint64_t s = 88172645463325252ull ^ @@SEED@@ull;
static uint64_t rnd() { s ^= s << 13; s ^= s >> 7; s ^= s << 17; return s; }
static long gen_i64(uint64_t r) { static const long E[] = {0, 1, -1, 2, 65535, 65536, 65537, 102943, 102944, 205887, 360, 361, 127, 128, 255, 256, 32767, 32768, 2147483647L, 2147483648L, -2147483647L,
    (1L << 46), (1L << 47) - 1, (1L << 47), 0x7FFFFFFFFFFFFFFEL, -0x7FFFFFFFFFFFFFFEL, 0x7FFFFFFFFFFFFFFFL, (long)0x8000000000000000UL};
  if ((r & 15) == 0) return E[(r >> 8) % (sizeof E / sizeof E[0])];
  long v = (long)(rnd() >> 1) >> (r >> 8) % 63; return (r & 16) ? -v : v; }
static long gen_fix(uint64_t r) { long v = gen_i64(r); return v == (long)0x8000000000000000UL ? 0 : v; }   // fixed_t domain: every raw value but INT64_MIN
static double gen_f64(uint64_t r) { if ((r & 7) == 0) { uint64_t b = rnd(); double d; std::memcpy(&d, &b, 8); return d; } double m = (double)gen_i64(r) / 65536.0; return (r & 32) ? m / 3.0 : m; }
static float gen_f32(uint64_t r) { if ((r & 7) == 0) { uint32_t b = (uint32_t)rnd(); float f; std::memcpy(&f, &b, 4); return f; } return (float)gen_f64(r); }
template<class T> static bool same(T a, T b) { return std::memcmp(&a, &b, sizeof(T)) == 0 || (a != a && b != b); }
int main() {
  long tested = 0, skipped = 0;
  for (long i = 0; i < @@N@@; ++i) {
@@DRAW@@
    if (!(@@PRE@@)) { ++skipped; continue; }
    ++tested;
    auto real = @@CALL@@;
    auto ext = @@EXTCALL@@;
    if (!(@@CMP@@)) { std::printf("MISMATCH after %ld inputs: @@FMT@@\n", tested @@ARGS@@); return 1; }
  }
  std::printf("OK tested=%ld skipped=%ld\n", tested, skipped);
  return tested > 0 ? 0 : 3;
}
'''


def smoke_unit(unit, workdir, n=200000, seed=0):
    """returns (status, detail); status in ok / skip / mismatch / error"""
    from vfx import core
    if unit.engine != 'bv' or not unit.cxx or unit.prelude or unit.ghost or unit.loop_contracts:
        return 'skip', 'not a plain CBMC unit with a native call expression'
    udir = os.path.join(workdir, 'smoke_' + re.sub(r'[^A-Za-z0-9_.-]', '_', unit.id))
    shutil.rmtree(udir, ignore_errors=True)
    try:
        meta = core.emit_unit(unit, udir)
    except Exception as e:
        return 'error', 'emit: %s' % e
    params, ret = meta['params'], meta['ret']
    if any(ref == 'lref' for _, _, ref in params) or ret[1] == 'lref' or ret[0] == 'void':
        return 'skip', 'reference parameter / void result'
    for _, ct, _ in params:
        if ct not in GEN:
            return 'skip', 'parameter type ' + ct
    cpath = os.path.join(udir, 'unit.c')
    src = open(cpath).read()
    src = ERASE + src.replace('#ifndef __CPROVER__VF', '#if 1')
    src = re.sub(r'void vf_harness\(void\)\s*\{.*?\n\}', '', src, flags=re.S)
    with open(os.path.join(udir, 'unit_native.c'), 'w') as f:
        f.write(src)
    obj = os.path.join(udir, 'unit.o')
    r = subprocess.run(['gcc', '-O1', '-w', '-c', os.path.join(udir, 'unit_native.c'), '-o', obj], capture_output=True, text=True)
    if r.returncode != 0:
        return 'error', 'extracted C does not compile natively: ' + r.stderr[-800:]
    # prefix only the symbols DEFINED by the extracted C (libgcc helpers such as __modti3 must keep their names)
    nm = subprocess.run(['nm', '--defined-only', '-g', obj], capture_output=True, text=True)
    symmap = os.path.join(udir, 'syms.map')
    with open(symmap, 'w') as f:
        for line in nm.stdout.split('\n'):
            parts = line.split()
            if len(parts) == 3:
                f.write('%s vfx_%s\n' % (parts[2], parts[2]))
        f.write('vf_sqrt vfx_vf_sqrt\n')
    r = subprocess.run(['objcopy', '--redefine-syms=' + symmap, obj], capture_output=True, text=True)
    if r.returncode != 0:
        return 'error', 'objcopy: ' + r.stderr[-300:]
    cn = meta['cname']

    def ct(c):
        return 'c_fixed_t' if c == 'fixed_t' else ('bool' if c == '_Bool' else c)
    proto = '%s vfx_%s(%s)' % (ct(ret[0]), cn, ', '.join('%s a%d' % (ct(c), i) for i, (_, c, _) in enumerate(params)))
    draw, names, ext_args, fmt, args = [], [], [], [], []
    for i, (_, c, _) in enumerate(params):
        draw.append('    uint64_t r%d = rnd(); %s in_%d = %s;' % (i, CXX_T.get(c, c), i, GEN[c].replace('(r)', '(r%d)' % i).replace('(r &', '(r%d &' % i)))
        names.append('in_%d' % i)
        ext_args.append('c_fixed_t{in_%d.v}' % i if c == 'fixed_t' else 'in_%d' % i)
        if c == 'fixed_t':
            fmt.append('in_%d.v=%%ld' % i)
            args.append(', (long)in_%d.v' % i)
        elif c in ('float', 'double'):
            fmt.append('in_%d=%%.17g' % i)
            args.append(', (double)in_%d' % i)
        else:
            fmt.append('in_%d=%%lld' % i)
            args.append(', (long long)in_%d' % i)
    call = unit.cxx
    for i in range(len(names), 0, -1):
        call = call.replace('$%d' % i, names[i - 1])
    pre = '%s(%s)' % (unit.pre, ', '.join(names + [str(c) for c in unit.pre_consts])) if unit.pre else 'true'
    if unit.ub_only:
        pre = 'true'
    cmp_ = 'real.v == ext.v' if ret[0] == 'fixed_t' else 'same(real, ext)'
    d = DRIVER
    for k, v in {'PROTO': proto, 'SEED': str(seed * 1000003 + 17), 'N': str(n), 'DRAW': '\n'.join(draw), 'PRE': pre, 'CALL': call,
                 'EXTCALL': 'vfx_%s(%s)' % (cn, ', '.join(ext_args)), 'CMP': cmp_, 'FMT': ' '.join(fmt), 'ARGS': ''.join(args)}.items():
        d = d.replace('@@%s@@' % k, v)
    dpath = os.path.join(udir, 'driver.cc')
    with open(dpath, 'w') as f:
        f.write(d)
    flags = ['-std=c++17', '-O1', '-w', '-I' + os.path.join(REPO, 'fixed_lib', 'include'), '-I' + os.path.join(REPO, 'fixed_lib', 'src'),
             '-I' + os.path.join(VERIF, 'spec')]
    if unit.cfg in ('abacus', 'portable'):
        flags.append('-DFIXEDMATH_ENABLE_SQRT_ABACUS_ALGO')
    if unit.cfg == 'portable':
        flags.append('-DFIXEDMATH_VERIF_PORTABLE_MULTIPLY')
    exe = os.path.join(udir, 'driver')
    r = subprocess.run(['g++'] + flags + [dpath, obj, os.path.join(VERIF, 'spec', 'native_lib.cc'), '-o', exe], capture_output=True, text=True)
    if r.returncode != 0:
        return 'error', 'driver does not build: ' + r.stderr[-1200:]
    try:
        r = subprocess.run([exe], capture_output=True, text=True, timeout=300)
    except subprocess.TimeoutExpired:
        return 'error', 'driver timed out'
    out = r.stdout.strip().split('\n')[-1] if r.stdout.strip() else ''
    shutil.rmtree(udir, ignore_errors=True)
    if r.returncode == 0 and out.startswith('OK'):
        return 'ok', out
    if r.returncode == 3:
        return 'skip', 'no generated input satisfies the precondition: ' + out
    if r.returncode == 1 and 'MISMATCH' in r.stdout:
        return 'mismatch', out
    return 'error', 'driver rc=%s %s %s' % (r.returncode, out, r.stderr[-500:])


INT_DRIVER = r'''
#include <cstdio>
#include <cstdint>
#include "all.hpp"
using namespace vfspec;
int main() {
  FILE* f = std::fopen("@@INPUTS@@", "r"); if (!f) return 9;
  long long v[8];
  for (;;) {
    int ok = 1; for (int i = 0; i < @@NP@@; ++i) if (std::fscanf(f, "%lld", &v[i]) != 1) ok = 0;
    if (!ok) break;
@@DECL@@
    bool pre = @@PRE@@;
    if (!pre) { std::printf("skip\n"); continue; }
    auto r = @@CALL@@;
    std::printf("%lld\n", (long long)(@@RES@@));
  }
  return 0;
}
'''


def smoke_unit_int(unit, workdir, n=40, seed=0):
    """validate the INT back end's symbolic semantics on concrete inputs: the SMT value of the result term under
    in_k := v_k must equal what the real C++ returns"""
    import random
    from vfx import core, intwp, extract as X
    if unit.engine != 'int' or not unit.cxx or any(g[1].startswith('UF') for g in unit.replace):
        return 'skip', 'not an INT unit with a native call expression'
    udir = os.path.join(workdir, 'smokeint_' + re.sub(r'[^A-Za-z0-9_.-]', '_', unit.id))
    shutil.rmtree(udir, ignore_errors=True)
    os.makedirs(udir)
    try:
        ast = core.get_ast(unit.cfg)
        ex = X.Extractor(ast)
        cn = ex.require_mangled(unit.fn)
        f = ex.funcs[cn]
        wp = intwp.IntWP(ast, ex, replace={})      # callees inlined: the comparison is against the real, complete function
        node = ast.fn_def_by_mangled[unit.fn]
        inputs, flat = [], []
        for i, (pname, t) in enumerate(f['params']):
            if t.ref == 'lref':
                return 'skip', 'reference parameter'
            v = wp.input_value('in%d' % i, t)
            inputs.append(v)
            flat.append((list(v.values())[0] if isinstance(v, dict) else v, t))
        ret = wp.call_node(node, list(inputs), 'true')
    except (intwp.Unsupported, X.ExtractError) as e:
        return 'skip', 'outside the INT subset when fully inlined: %s' % e
    rterm = list(ret.values())[0] if isinstance(ret, dict) else ret
    rnd = random.Random(seed * 7919 + hash(unit.id) % 1000)
    edges = [0, 1, -1, 2, 65535, 65536, -65536, 102943, 102944, 205887, 411774, 360, 127, 128, 255, 2147483647, -2147483647, 2147483648,
             (1 << 46), (1 << 47) - 1, 1 << 47, (1 << 62), 0x7FFFFFFFFFFFFFFE, -0x7FFFFFFFFFFFFFFE]
    rows = []
    for k in range(n * 6):
        row = []
        for term, t in flat:
            lo, hi = intwp.rng(ex.structs[t.base][0][0] if t.is_struct() else t.base)
            v = rnd.choice(edges) if rnd.random() < 0.35 else (rnd.getrandbits(63) >> rnd.randrange(63)) * rnd.choice((1, -1))
            v = max(lo, min(hi, v))
            if t.is_struct() and v == -(1 << 63):
                v = 0
            row.append(v)
        rows.append(row)
    inp = os.path.join(udir, 'inputs.txt')
    with open(inp, 'w') as fh:
        for row in rows:
            fh.write(' '.join(str(v) for v in row) + '\n')
    decl, names = [], []
    for i, (pname, t) in enumerate(f['params']):
        cxt = CXX_T.get(t.base, t.base)
        decl.append('    %s in_%d = %s;' % (cxt, i, 'fixedmath::as_fixed((int64_t)v[%d])' % i if t.base == 'fixed_t' else '(%s)v[%d]' % (cxt, i)))
        names.append('in_%d' % i)
    call = unit.cxx
    for i in range(len(names), 0, -1):
        call = call.replace('$%d' % i, names[i - 1])
    d = INT_DRIVER
    for k, v in {'INPUTS': inp, 'NP': str(len(names)), 'DECL': '\n'.join(decl), 'PRE': '%s(%s)' % (unit.pre, ', '.join(names + [str(c) for c in unit.pre_consts])) if unit.pre else 'true',
                 'CALL': call, 'RES': 'r.v' if f['ret'].base == 'fixed_t' else 'r'}.items():
        d = d.replace('@@%s@@' % k, v)
    dpath = os.path.join(udir, 'driver.cc')
    open(dpath, 'w').write(d)
    flags = ['-std=c++17', '-O1', '-w', '-I' + os.path.join(REPO, 'fixed_lib', 'include'), '-I' + os.path.join(REPO, 'fixed_lib', 'src'), '-I' + os.path.join(VERIF, 'spec')]
    if unit.cfg in ('abacus', 'portable'):
        flags.append('-DFIXEDMATH_ENABLE_SQRT_ABACUS_ALGO')
    if unit.cfg == 'portable':
        flags.append('-DFIXEDMATH_VERIF_PORTABLE_MULTIPLY')
    exe = os.path.join(udir, 'driver')
    r = subprocess.run(['g++'] + flags + [dpath, os.path.join(VERIF, 'spec', 'native_lib.cc'), '-o', exe], capture_output=True, text=True)
    if r.returncode != 0:
        return 'error', 'driver does not build: ' + r.stderr[-800:]
    r = subprocess.run([exe], capture_output=True, text=True, timeout=120)
    outs = r.stdout.strip().split('\n')
    if len(outs) != len(rows):
        return 'error', 'driver output rows %d != %d' % (len(outs), len(rows))
    # definitions plus what the executor assumed on the way (input ranges, the defining inequalities of clz results)
    base = intwp.PRELUDE + '\n'.join(wp.decls) + '\n' + '\n'.join('(assert %s)' % a for a in wp.asserts) + '\n' + '\n'.join('(assert %s)' % a for a in wp.assumes) + '\n'
    q = [base]
    expect = []
    for row, o in zip(rows, outs):
        if o == 'skip' or len(expect) >= n:
            continue
        q.append('(push)\n' + '\n'.join('(assert (= %s %s))' % (term, intwp.lit(v)) for (term, t), v in zip(flat, row)) + '\n(check-sat)\n(get-value (%s))\n(pop)' % rterm)
        expect.append((row, int(o)))
    if not expect:
        return 'skip', 'no generated input satisfies the precondition'
    qpath = os.path.join(udir, 'q.smt2')
    open(qpath, 'w').write('\n'.join(q))
    try:
        r = subprocess.run(['z3', '-smt2', qpath], capture_output=True, text=True, timeout=20)
    except subprocess.TimeoutExpired:
        return 'skip', 'concrete evaluation of the fully inlined term timed out in z3'
    got = []
    for line in r.stdout.split('\n'):
        m = re.search(r'(\(- (\d+)\)|(\d+))\)\)\s*$', line)
        if line.startswith('((') and m:
            got.append(-int(m.group(2)) if m.group(2) else int(m.group(3)))
    if len(got) != len(expect):
        return 'error', 'z3 returned %d values for %d inputs: %s' % (len(got), len(expect), r.stdout[:300])
    for (row, e), g in zip(expect, got):
        if e != g:
            return 'mismatch', 'INT term evaluates to %d, real code returns %d for inputs %s' % (g, e, row)
    shutil.rmtree(udir, ignore_errors=True)
    return 'ok', 'OK tested=%d' % len(expect)


def smoke_property(pid, tier, seed):
    """extra step: returns the dict shape of prop.py extras; a mismatch is a machinery error (ok=None), never a violation"""
    from vfx import core
    import importlib
    bind = importlib.import_module('spec.bind')
    workdir = os.path.join(core.BUILD, 'work', pid)
    os.makedirs(workdir, exist_ok=True)
    units = bind.units(pid)
    for cfg in sorted(set(u.cfg for u in units)):
        core.get_ast(cfg)
    n = 100000 if tier == 'quick' else 2000000
    res = {}
    t0 = time.time()
    with concurrent.futures.ThreadPoolExecutor(max_workers=core.NCPU) as tp:
        futs = {(tp.submit(smoke_unit_int, u, workdir, 40 if tier == 'quick' else 400, seed) if u.engine == 'int' else tp.submit(smoke_unit, u, workdir, n, seed)): u for u in units}
        for f in concurrent.futures.as_completed(futs):
            res[futs[f].id] = f.result()
    ok = [k for k, v in res.items() if v[0] == 'ok']
    bad = {k: v[1] for k, v in res.items() if v[0] in ('mismatch', 'error')}
    skipped = [k for k, v in res.items() if v[0] == 'skip']
    if bad:
        raise core.Undecided('translation-validation smoke run: extracted C disagrees with / cannot be compared to the real C++: %s' % json.dumps(bad)[:3000])
    return {'name': 'smoke_' + pid, 'kind': 'translation-validation guard for the extractor (not a verification step)', 'ok': True,
            'detail': '%d units compared, %d skipped' % (len(ok), len(skipped)),
            'summary': 'smoke: extracted C == real C++ on %d inputs for %d units (%d skipped)' % (n, len(ok), len(skipped)),
            'evaluations': n * len(ok), 'violations': [], 'samples': [{'unit': k, 'result': res[k][1]} for k in ok[:3]],
            'standin': {'name': 'smoke_' + pid, 'label': 'translation-validation guard (extracted C vs real C++, random inputs satisfying the precondition); not a verification step',
                        'units_compared': len(ok), 'units_skipped': len(skipped), 'inputs_per_unit': n, 'seconds': round(time.time() - t0, 1)}}


if __name__ == '__main__':
    from vfx import core
    import importlib
    pid = sys.argv[1]
    print(json.dumps(smoke_property(pid, sys.argv[2] if len(sys.argv) > 2 else 'quick', 0), indent=1)[:3000])
