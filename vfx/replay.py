#!/usr/bin/env python3
"""
vfx.replay -- run a solver counterexample against the REAL C++ code in /repo.

A replay file (JSON) names the failed obligation and carries the harness inputs taken from
the CBMC trace. The native driver includes /repo's headers (and links fixed_math.cc),
rebuilds the inputs bit-for-bit, calls the real function and evaluates the same spec
predicates, under UBSan+ASan with SIGFPE/SIGSEGV handlers.
"""
import os, sys, json, subprocess, tempfile, shutil, re

VERIF = os.path.dirname(os.path.dirname(os.path.abspath(__file__)))
REPO = os.environ.get('VF_REPO', '/repo')

CXX_OF = {'fixed_t': 'fixedmath::fixed_t', '_Bool': 'bool'}


def value_bits(v):
    """cbmc json value -> (kind, bitstring)"""
    if v is None:
        return None
    if v.get('name') == 'struct':
        return value_bits(v['members'][0]['value'])
    if 'binary' in v:
        return v['binary']
    return None


def cxx_literal(ctype, bits):
    if bits is None:
        bits = '0'
    u = int(bits, 2)
    if ctype == 'fixed_t':
        return 'fixedmath::as_fixed((int64_t)0x%xULL)' % (u & (2 ** 64 - 1))
    if ctype in ('float',):
        return 'vf_bits_f(0x%xu)' % (u & 0xffffffff)
    if ctype in ('double',):
        return 'vf_bits_d(0x%xULL)' % (u & (2 ** 64 - 1))
    if ctype == '_Bool':
        return 'true' if u & 1 else 'false'
    width = {'char': 8, 'signed char': 8, 'unsigned char': 8, 'short': 16, 'unsigned short': 16, 'int': 32,
             'unsigned int': 32, 'long': 64, 'unsigned long': 64, 'long long': 64, 'unsigned long long': 64}[ctype]
    ut = {8: 'uint8_t', 16: 'uint16_t', 32: 'uint32_t', 64: 'uint64_t'}[width]
    return '(%s)(%s)0x%xULL' % (ctype, ut, u & (2 ** width - 1))


DRIVER = r'''
#include <cstdio>
#include <cstring>
#include <cstdint>
#include <csignal>
#include <cstdlib>
#include "all.hpp"
#include "native_oracles.hpp"
using namespace vfspec;
static float vf_bits_f(uint32_t b){ float f; std::memcpy(&f,&b,4); return f; }
static double vf_bits_d(uint64_t b){ double d; std::memcpy(&d,&b,8); return d; }
static void on_sig(int s){ std::printf("SIGNAL %d\n", s); std::fflush(stdout); std::_Exit(3); }
template<typename T> static void show(const char* n, T v){
  if constexpr (std::is_same_v<T,fixedmath::fixed_t>) std::printf("%s raw=%lld (%.9g)\n", n, (long long)v.v, (double)v.v/65536.0);
  else if constexpr (std::is_floating_point_v<T>) std::printf("%s = %.17g\n", n, (double)v);
  else if constexpr (std::is_same_v<T,bool>) std::printf("%s = %d\n", n, (int)v);
  else if constexpr (std::is_unsigned_v<T>) std::printf("%s = %llu\n", n, (unsigned long long)v);
  else std::printf("%s = %lld\n", n, (long long)v);
}
int main(){
  std::signal(SIGFPE,on_sig); std::signal(SIGSEGV,on_sig); std::signal(SIGILL,on_sig); std::signal(SIGBUS,on_sig);
@@decls@@
@@shows@@
  bool pre = @@pre@@;
  std::printf("pre=%d\n",(int)pre); std::fflush(stdout);
@@call@@
  std::fflush(stdout);
  bool post = @@post@@;
  std::printf("post=%d\n",(int)post);
  return post ? 0 : 1;
}
'''


def make_driver(rp):
    decls, shows, names, olds = [], [], [], []
    for i, p in enumerate(rp['params']):
        pname, ctype, ref = p
        lit = cxx_literal(ctype, rp['inputs'].get('in_%d' % i))
        cxxt = CXX_OF.get(ctype, ctype)
        decls.append('  %s in_%d = %s;' % (cxxt, i, lit))
        shows.append('  show("in_%d(%s)", in_%d);' % (i, pname, i))
        if ref == 'lref':
            decls.append('  %s obj_%d = in_%d;' % (cxxt, i, i))
            names.append('obj_%d' % i)
        else:
            names.append('in_%d' % i)
        olds.append('in_%d' % i)
    call = rp['cxx']
    for i in range(len(names), 0, -1):
        call = call.replace('$%d' % i, names[i - 1])
    pre = '%s(%s)' % (rp['pre'], ', '.join(olds + [str(c) for c in rp.get('pre_consts', [])])) if rp.get('pre') else 'true'
    retvoid = rp['ret'][0] == 'void'
    retref = rp['ret'][1] == 'lref'
    news = [n for n in names if n.startswith('obj_')]
    if rp.get('lemma'):
        callst = '  bool r = %s;\n  show("result", r);' % call
        post = 'r'
    else:
        if retvoid or retref:
            callst = '  (void)(%s);' % call
            pargs = olds + news
        else:
            callst = '  auto r = %s;\n  show("result", r);' % call
            pargs = olds + ['r'] + news
        for n in news:
            callst += '\n  show("%s", %s);' % (n, n)
        post = '%s(%s)' % (rp['post'], ', '.join(pargs)) if rp.get('post') else 'true'
        if rp.get('native_post'):
            post = '(%s) && %s(%s)' % (post, rp['native_post'], ', '.join(pargs))
    out = DRIVER
    for k, v in {'decls': '\n'.join(decls), 'shows': '\n'.join(shows), 'pre': pre, 'call': callst, 'post': post}.items():
        out = out.replace('@@%s@@' % k, v)
    return out


def native(rp, keep=None):
    """compile + run; returns dict(outcome, output)"""
    d = tempfile.mkdtemp(prefix='vfreplay_', dir=os.path.join(VERIF, 'build')) if os.path.isdir(os.path.join(VERIF, 'build')) \
        else tempfile.mkdtemp(prefix='vfreplay_')
    try:
        src = os.path.join(d, 'replay.cc')
        with open(src, 'w') as f:
            f.write(make_driver(rp))
        exe = os.path.join(d, 'replay')
        flags = ['-std=c++17', '-O1', '-g', '-fsanitize=undefined,address', '-fno-sanitize-recover=all',
                 '-I' + os.path.join(REPO, 'fixed_lib', 'include'), '-I' + os.path.join(REPO, 'fixed_lib', 'src'),
                 '-I' + os.path.join(VERIF, 'spec'), '-Wno-deprecated-declarations']
        if rp.get('cfg', 'abacus') in ('abacus', 'portable'):
            flags.append('-DFIXEDMATH_ENABLE_SQRT_ABACUS_ALGO')
        if rp.get('cfg') == 'portable':
            flags.append('-DFIXEDMATH_VERIF_PORTABLE_MULTIPLY')
        cmd = ['g++'] + flags + [src, os.path.join(VERIF, 'spec', 'native_lib.cc'), '-o', exe]
        r = subprocess.run(cmd, capture_output=True, text=True, timeout=300)
        if r.returncode != 0:
            return {'outcome': 'driver-build-failed', 'output': r.stderr[-3000:]}
        env = dict(os.environ, UBSAN_OPTIONS='print_stacktrace=0:halt_on_error=1', ASAN_OPTIONS='detect_leaks=0')
        try:
            r = subprocess.run([exe], capture_output=True, text=True, timeout=60, env=env)
        except subprocess.TimeoutExpired:
            return {'outcome': 'timeout', 'output': ''}
        out = r.stdout + r.stderr
        if 'pre=0' in r.stdout:
            oc = 'precondition-false'
        elif 'runtime error' in r.stderr:
            oc = 'reproduced-ub'
        elif 'SIGNAL' in r.stdout or r.returncode < 0 or 'AddressSanitizer' in r.stderr:
            oc = 'reproduced-trap'
        elif 'post=0' in r.stdout:
            oc = 'reproduced-postcondition'
        elif 'post=1' in r.stdout:
            oc = 'not-reproduced'
        else:
            oc = 'unknown'
        return {'outcome': oc, 'output': out[-3000:]}
    finally:
        shutil.rmtree(d, ignore_errors=True)


def main(path):
    rp = json.load(open(path))
    print('replay of %s / %s' % (rp['property'], rp['obligation']))
    if not rp.get('inputs') and not rp.get('params') == []:
        print('no failing input recorded (obligation behind an abstraction); solver output:')
        print(rp.get('solver_output', '')[:3000])
        return 1
    res = native(rp)
    print(res['output'])
    print('outcome:', res['outcome'])
    return 1 if res['outcome'].startswith('reproduced') else 0


if __name__ == '__main__':
    sys.exit(main(sys.argv[1]))
