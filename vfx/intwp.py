#!/usr/bin/env python3
"""
vfx.intwp -- second back end: symbolic execution of the same clang AST into SMT-LIB over
mathematical integers (DESIGN.md 3.3 "INT").

Bit-vector solvers cannot decide congruence / quotient-uniqueness facts about `/` and `%`
(measured); integer-theory solvers can in milliseconds. This module executes loop-free
integer functions symbolically:

  * every C integer expression becomes an Int term; every *signed* arithmetic node also
    yields a range obligation (INT_MIN <= e <= INT_MAX of its C type, divisor != 0, no
    INT_MIN/-1, shift count/left operand valid), so "machine arithmetic is mathematical"
    is proved per function on its domain before the integer reading is used;
  * conversions are modelled exactly (value-preserving by type -> identity, otherwise
    modular wrap as GCC/Clang define it);
  * calls are inlined; calls to a function listed in `replace` are replaced by their
    contract: precondition becomes an obligation, the result is a fresh constant constrained
    by the postcondition (this is how operator<< enters: its contract is proved by BV in C18);
  * the obligations are   pre /\ path => goal , one SMT query each.

Outside the subset (anything else raises Unsupported -> exit 2): loops, floating point,
`& | ^` other than with literal masks 2^k-1 / ~(2^k-1), pointers other than reference
parameters of inlined callees.
"""
import re, os, subprocess, tempfile, time, concurrent.futures, shutil
from vfx import extract as X
from vfx.extract import kids, SIGNED_INT, UNSIGNED_INT, SIZEOF, ExtractError


class Unsupported(Exception):
    pass


def rng(ctype):
    if ctype in SIGNED_INT:
        b = SIGNED_INT[ctype]
        return -(1 << (b - 1)), (1 << (b - 1)) - 1
    if ctype in UNSIGNED_INT:
        b = UNSIGNED_INT[ctype]
        return 0, (1 << b) - 1
    raise Unsupported('range of ' + ctype)


def lit(v):
    return str(v) if v >= 0 else '(- %d)' % (-v)


# 2^n for 0 <= n <= 64 as a case table: variable shift distances and clz results are small integers the solver splits on
POW2 = "(define-fun pow2 ((n Int)) Int " + ''.join('(ite (= n %d) %d ' % (i, 1 << i) for i in range(0, 65)) + '0' + ')' * 65 + ")\n"

PRELUDE = '''(set-logic ALL)
(define-fun tdiv ((a Int) (b Int)) Int (ite (>= a 0) (ite (> b 0) (div a b) (- (div a (- b)))) (ite (> b 0) (- (div (- a) b)) (div (- a) (- b)))))
(define-fun tmod ((a Int) (b Int)) Int (- a (* b (tdiv a b))))
(define-fun b2i ((b Bool)) Int (ite b 1 0))
''' + POW2


def _tok(s):
    return re.findall(r'\(|\)|[^\s()]+', s)


def _parse(toks, i=0):
    if toks[i] == '(':
        lst = []
        i += 1
        while toks[i] != ')':
            x, i = _parse(toks, i)
            lst.append(x)
        return lst, i + 1
    return toks[i], i + 1


def _tdiv(a, b):
    q = abs(a) // abs(b)
    return q if (a >= 0) == (b > 0) else -q


def _ev(x):
    if isinstance(x, str):
        if x == 'true':
            return True
        if x == 'false':
            return False
        return int(x)
    op, args = x[0], [_ev(a) for a in x[1:]]
    if op == '+':
        return sum(args)
    if op == '-':
        return -args[0] if len(args) == 1 else args[0] - sum(args[1:])
    if op == '*':
        r = 1
        for a in args:
            r *= a
        return r
    if op == 'div':
        a, b = args
        q = a // b if b > 0 else -(a // -b)
        return q
    if op == 'mod':
        a, b = args
        return a % abs(b)
    if op == 'tdiv':
        return _tdiv(*args)
    if op == 'tmod':
        return args[0] - args[1] * _tdiv(*args)
    if op == 'b2i':
        return 1 if args[0] else 0
    if op == 'ite':
        return args[1] if args[0] else args[2]
    if op == 'not':
        return not args[0]
    if op == 'and':
        return all(args)
    if op == 'or':
        return any(args)
    if op == '=>':
        return (not args[0]) or args[1]
    if op == '=':
        return args[0] == args[1]
    if op in ('<', '<=', '>', '>='):
        a, b = args
        return {'<': a < b, '<=': a <= b, '>': a > b, '>=': a >= b}[op]
    raise ValueError(op)


def fold(term):
    """evaluate a closed term to a literal; return term unchanged otherwise"""
    if not isinstance(term, str) or 'v' in term.replace('div', '').replace('tdi', ''):
        return term
    try:
        v = _ev(_parse(_tok(term))[0])
    except (ValueError, ZeroDivisionError, IndexError):
        return term
    if v is True:
        return 'true'
    if v is False:
        return 'false'
    return lit(v)


class Ref:
    """reference to a variable slot of some frame (for T& parameters)"""
    def __init__(self, frame, name, field=None):
        self.frame, self.name, self.field = frame, name, field


class Frame:
    def __init__(self):
        self.vars = {}        # decl id -> value (term str | dict field->term | Ref)
        self.names = {}
        self.returned = 'false'
        self.retval = None


class IntWP:
    def __init__(self, ast, extractor, replace=None, struct_fields=None):
        self.ast = ast
        self.ex = extractor          # for type resolution only
        self.decls = []              # smt declarations
        self.asserts = []            # definitional equalities
        self.obligations = []        # (name, pathcond, goal, where)
        self.assumes = []            # global assumptions (pre, contracts)
        self.n = 0
        self.replace = replace or {}  # mangled -> (pre, post)
        self.depth = 0
        self.consts = {}
        self.hints = None            # directory for the online queries of value_hint(), or None: no hints
        self.cur_path = None
        self.hint_n = 0

    # ------------------------------------------------------------------ utilities
    def fresh(self, hint, sort='Int'):
        self.n += 1
        name = 'v%d_%s' % (self.n, re.sub(r'[^A-Za-z0-9_]', '_', hint)[:24])
        self.decls.append('(declare-const %s %s)' % (name, sort))
        return name

    def define(self, hint, term, sort='Int'):
        """name a term (keeps queries small)"""
        term = fold(term)
        if re.match(r'^(\(- \d+\)|-?\d+|true|false|v\d+_\w+)$', term):
            return term
        name = self.fresh(hint, sort)
        self.asserts.append('(= %s %s)' % (name, term))
        return name

    def oblige(self, name, path, goal, where):
        # an obligation may use only what was assumed BEFORE it in program order (a contract's postcondition assumed
        # at a later call -- possibly false on this path -- must not discharge an earlier obligation vacuously)
        self.obligations.append((name, path, goal, where, len(self.assumes), len(self.asserts)))

    def ty(self, ft, n):
        return ft.ty(n)

    def wrap(self, term, ctype):
        lo, hi = rng(ctype)
        m = hi - lo + 1
        if self.hints and self.cur_path is not None and ctype != '_Bool':
            # solver-aided: a modular reduction that cannot happen on this path is dropped, after the range fact has been registered
            # as an obligation of its own
            fact = '(and (<= %s %s) (<= %s %s))' % (lit(lo), term, term, lit(hi))
            if self.entailed(self.cur_path, fact, secs=5):
                self.oblige('value-hint', self.cur_path, fact, 'conversion to %s does not wrap on this path (derived fact)' % ctype)
                return term
        if ctype in UNSIGNED_INT:
            if ctype == '_Bool':
                return '(b2i (not (= %s 0)))' % term
            return '(mod %s %d)' % (term, m)
        return '(- (mod (+ %s %d) %d) %d)' % (term, -lo, m, -lo)

    def convert(self, term, src, dst):
        if src == dst:
            return term
        if dst == '_Bool':
            return '(b2i (not (= %s 0)))' % term
        slo, shi = rng(src)
        dlo, dhi = rng(dst)
        if slo >= dlo and shi <= dhi:
            return term
        m = re.match(r'^(\(- (\d+)\)|(\d+))$', term)
        if m:
            v = -int(m.group(2)) if m.group(2) else int(m.group(3))
            w = dhi - dlo + 1
            v = ((v - dlo) % w) + dlo
            return lit(v)
        return self.wrap(term, dst)

    # --------------------------------------------------------------- entry points
    def input_value(self, name, t):
        """fresh symbolic input of C type t (Ty)"""
        if t.is_struct():
            fields = self.ex.structs[t.base]
            val = {}
            for ft_, fn_ in fields:
                c = self.fresh(name + '_' + fn_)
                lo, hi = rng(ft_)
                self.assumes.append('(and (<= %s %s) (<= %s %s))' % (lit(lo), c, c, lit(hi)))
                val[fn_] = c
            return val
        if t.base in X.FLOATS:
            raise Unsupported('floating point input')
        c = self.fresh(name)
        lo, hi = rng(t.base)
        self.assumes.append('(and (<= %s %s) (<= %s %s))' % (lit(lo), c, c, lit(hi)))
        return c

    def call_by_mangled(self, mangled, args, path, frame_hint=''):
        node = self.ast.fn_def_by_mangled.get(mangled)
        if node is None:
            raise ExtractError('INT: no definition ' + mangled)
        return self.call_node(node, args, path)

    # ------------------------------------------------------------------ execution
    def call_node(self, node, args, path, top_sites=None):
        self.depth += 1
        if self.depth > 40:
            raise Unsupported('call depth')
        ft = X.FnTranslator(self.ex, node, 'int_' + (node.get('mangledName') or node.get('name', '?')))
        ft.collect_aliases(node)
        params = [c for c in kids(node) if c.get('kind') == 'ParmVarDecl']
        body = [c for c in kids(node) if c.get('kind') == 'CompoundStmt']
        if not body:
            raise Unsupported('call to function without body: %s' % node.get('name'))
        fr = Frame()
        fr.ft = ft
        if top_sites is not None:
            fr.ret_sites = top_sites
        kind = node['kind']
        off = 0
        if kind in ('CXXMethodDecl', 'CXXConversionDecl') and node.get('storageClass') != 'static':
            fr.this = args[0]
            off = 1
        if len(args) - off != len(params):
            raise Unsupported('arity in call to %s' % node.get('name'))
        for p, a in zip(params, args[off:]):
            fr.vars[p['id']] = a
        if kind == 'CXXConstructorDecl':
            rec = self.ast.parent_record[node['id']]
            sname = self.ex._struct(self.ast.rec_qual[rec['id']])
            this = {f[1]: '0' for f in self.ex.structs[sname]}
            for ci in node.get('inner', []):
                if ci.get('kind') == 'CXXCtorInitializer':
                    fld = ci.get('anyInit', {}).get('name')
                    e = kids(ci)
                    this[fld] = self.expr(e[0], fr, path)
            fr.this = this
            self.stmt(body[0], fr, path)
            self.depth -= 1
            return this
        self.stmt(body[0], fr, path)
        self.depth -= 1
        return fr.retval

    def guard(self, fr, path):
        if fr.returned == 'false':
            return path
        return '(and %s (not %s))' % (path, fr.returned)

    def assign(self, fr, target, value, path):
        """target: ('var', frame, id) | ('field', frame, id, fname) ; merges under the return guard"""
        kind = target[0]
        tf = target[1]
        # a write after an earlier `return` of this frame must not happen.  For a variable of another frame (reference parameter) the
        # old value is kept under `returned`; the frame's own variables are never observed once it has returned (the returned value was
        # captured at the return statement, later statements and obligations are guarded by `not returned`), so no ite is needed there
        g = fr.returned if tf is not fr else 'false'
        if kind == 'var':
            old = tf.vars.get(target[2])
            if isinstance(old, Ref):
                return self.assign(fr, self.deref(old), value, path)
            if isinstance(value, dict):
                new = {}
                for k, v in value.items():
                    o = old[k] if isinstance(old, dict) else None
                    new[k] = v if (g == 'false' or o is None) else self.define('m', '(ite %s %s %s)' % (g, o, v))
                tf.vars[target[2]] = new
            else:
                tf.vars[target[2]] = value if (g == 'false' or old is None) else self.define('m', '(ite %s %s %s)' % (g, old, value))
        else:
            old = tf.vars.get(target[2])
            if isinstance(old, Ref):
                t2 = self.deref(old)
                return self.assign(fr, ('field', t2[1], t2[2], target[3]), value, path)
            new = dict(old)
            o = old[target[3]]
            new[target[3]] = value if g == 'false' else self.define('m', '(ite %s %s %s)' % (g, o, value))
            tf.vars[target[2]] = new

    def deref(self, ref):
        v = ref.frame.vars.get(ref.name)
        if isinstance(v, Ref):
            return self.deref(v)
        return ('var', ref.frame, ref.name)

    def load(self, fr, did):
        v = fr.vars.get(did)
        while isinstance(v, Ref):
            v = v.frame.vars.get(v.name)
        return v

    def stmt(self, n, fr, path):
        k = n.get('kind')
        if k == 'CompoundStmt':
            for c in kids(n):
                self.stmt(c, fr, path)
            return
        if k == 'NullStmt':
            return
        if k == 'DeclStmt':
            for d in kids(n):
                if d.get('kind') in ('TypeAliasDecl', 'TypedefDecl', 'UsingDecl', 'StaticAssertDecl', 'UsingDirectiveDecl'):
                    continue
                if d.get('kind') != 'VarDecl':
                    raise Unsupported('decl ' + d.get('kind'))
                init = kids(d)
                t = fr.ft.ty(d)
                if t.ref == 'lref':
                    raise Unsupported('local reference')
                if init:
                    fr.vars[d['id']] = self.expr(init[-1], fr, self.guard(fr, path))
                else:
                    fr.vars[d['id']] = None
                fr.names[d['id']] = d['name']
            return
        if k == 'ReturnStmt':
            e = kids(n)
            g = self.guard(fr, path)
            v = self.expr(e[0], fr, g) if e else None
            # branches are joined with ite at the enclosing if; inside a branch a return simply fires
            # unless an earlier return on the same straight-line path already did
            if getattr(fr, 'ret_sites', None) is not None:
                fr.ret_sites.append((g, v))
            if fr.returned == 'false' or fr.retval is None:
                fr.retval = v
            elif v is not None:
                fr.retval = self.merge(fr.returned, fr.retval, v)
            fr.returned = 'true'
            return
        if k == 'IfStmt':
            ch = kids(n)
            if n.get('hasInit') or n.get('hasVar'):
                raise Unsupported('if with init')
            if n.get('isConstexpr'):
                c = ch[0]
                if c.get('value') == 'true':
                    return self.stmt(ch[1], fr, path)
                if n.get('hasElse'):
                    return self.stmt(ch[2], fr, path)
                return
            cnd = self.define('c', self.cond(ch[0], fr, self.guard(fr, path)), 'Bool')
            cnd = self.decide_condition(cnd, self.guard(fr, path), fr.ft.cname)
            if cnd == 'true':
                return self.stmt(ch[1], fr, path)
            if cnd == 'false':
                if n.get('hasElse'):
                    return self.stmt(ch[2], fr, path)
                return
            saved = self.snapshot(fr)
            self.stmt(ch[1], fr, '(and %s %s)' % (path, cnd))
            then_state = self.snapshot(fr)
            self.restore(fr, saved)
            ncnd = '(not %s)' % cnd
            if n.get('hasElse'):
                self.stmt(ch[2], fr, '(and %s %s)' % (path, ncnd))
            else_state = self.snapshot(fr)
            self.join(fr, cnd, then_state, else_state)
            return
        if k in ('WhileStmt', 'ForStmt', 'DoStmt'):
            raise Unsupported('loop')
        if 'Expr' in k or 'Operator' in k or 'Literal' in k:
            self.expr(n, fr, self.guard(fr, path))
            return
        raise Unsupported('statement ' + k)

    def merge(self, cond, a, b):
        if isinstance(a, dict):
            return {k: self.define('m', '(ite %s %s %s)' % (cond, a[k], b[k])) for k in a}
        if a == b:
            return a
        return self.define('m', '(ite %s %s %s)' % (cond, a, b))

    def snapshot(self, fr):
        frames = []
        f = fr
        snap = {'vars': dict(fr.vars), 'returned': fr.returned, 'retval': fr.retval, 'outer': []}
        # reference targets in outer frames may be modified too
        for v in fr.vars.values():
            if isinstance(v, Ref):
                t = self.deref(v)
                snap['outer'].append((t[1], t[2], t[1].vars.get(t[2])))
        return snap

    def restore(self, fr, snap):
        fr.vars = dict(snap['vars'])
        fr.returned = snap['returned']
        fr.retval = snap['retval']
        for (f, name, val) in snap['outer']:
            f.vars[name] = val

    def join(self, fr, cnd, a, b):
        out = {}
        # a side that has definitely returned contributes nothing to the state the following statements see (they only run under
        # `not returned`): take the other side's values instead of an ite over values that can never be observed
        a_gone, b_gone = a['returned'] == 'true', b['returned'] == 'true'
        for k in set(a['vars']) | set(b['vars']):
            va, vb = a['vars'].get(k), b['vars'].get(k)
            if a_gone != b_gone and va is not None and vb is not None and not isinstance(va, Ref) and not isinstance(vb, Ref):
                out[k] = vb if a_gone else va
                continue
            if isinstance(va, Ref) or isinstance(vb, Ref) or va is None or vb is None:
                out[k] = va if va is not None else vb
            elif va is vb or va == vb:
                out[k] = va
            else:
                out[k] = self.merge(cnd, va, vb)
        fr.vars = out
        for (fa, na, va), (fb, nb, vb) in zip(a['outer'], b['outer']):
            # variables of OTHER frames written through reference parameters stay observable after this frame returns: always merged
            if va == vb:
                fa.vars[na] = va
            else:
                fa.vars[na] = self.merge(cnd, va, vb)
        if a['returned'] == b['returned']:
            fr.returned = a['returned']
        else:
            fr.returned = self.define('ret', '(ite %s %s %s)' % (cnd, a['returned'], b['returned']), 'Bool')
        ra, rb = a['retval'], b['retval']
        if ra is not None and rb is not None and a['returned'] != 'false' and b['returned'] == 'false' and False:
            pass
        ra, rb = a['retval'], b['retval']
        if ra is None:
            fr.retval = rb
        elif rb is None:
            fr.retval = ra
        elif ra == rb:
            fr.retval = ra
        else:
            fr.retval = self.merge(cnd, ra, rb)

    # ---------------------------------------------------------------- expressions
    def cond(self, n, fr, path):
        v = self.expr(n, fr, path)
        return self.as_bool(v)

    def as_bool(self, v):
        v = fold(v)
        m = re.match(r'^\(b2i (.*)\)$', v)
        if m and self.balanced(m.group(1)):
            return m.group(1)
        if v == '1':
            return 'true'
        if v == '0':
            return 'false'
        return '(not (= %s 0))' % v

    def balanced(self, s):
        d = 0
        for ch in s:
            if ch == '(':
                d += 1
            elif ch == ')':
                d -= 1
                if d < 0:
                    return False
        return d == 0

    def expr(self, n, fr, path):
        k = n.get('kind')
        m = getattr(self, 'x_' + k, None)
        if m is None:
            raise Unsupported('expression ' + k)
        prev, self.cur_path = self.cur_path, path      # the path under which THIS node is evaluated (used by wrap(), hints on)
        try:
            return m(n, fr, path)
        finally:
            self.cur_path = prev

    def x_IntegerLiteral(self, n, fr, path):
        return n['value']

    def x_CXXBoolLiteralExpr(self, n, fr, path):
        return '1' if n['value'] else '0'

    def x_ParenExpr(self, n, fr, path):
        return self.expr(kids(n)[0], fr, path)

    def passthrough(self, n, fr, path):
        return self.expr(kids(n)[-1], fr, path)

    x_ExprWithCleanups = passthrough
    x_MaterializeTemporaryExpr = passthrough
    x_CXXBindTemporaryExpr = passthrough
    x_SubstNonTypeTemplateParmExpr = passthrough

    def x_ConstantExpr(self, n, fr, path):
        v = n.get('value')
        if v == 'true':
            return '1'
        if v == 'false':
            return '0'
        if v is not None and re.match(r'^-?\d+$', v):
            return lit(int(v))
        return self.passthrough(n, fr, path)

    def x_FloatingLiteral(self, n, fr, path):
        raise Unsupported('floating point')

    def x_ImplicitValueInitExpr(self, n, fr, path):
        t = fr.ft.ty(n)
        if t.is_struct():
            return {f[1]: '0' for f in self.ex.structs[t.base]}
        return '0'

    x_CXXScalarValueInitExpr = x_ImplicitValueInitExpr

    def x_InitListExpr(self, n, fr, path):
        ch = kids(n)
        t = fr.ft.ty(n)
        if not ch:
            return self.x_ImplicitValueInitExpr(n, fr, path)
        if len(ch) == 1:
            return self.expr(ch[0], fr, path)
        raise Unsupported('init list')

    def x_DeclRefExpr(self, n, fr, path):
        r = n['referencedDecl']
        if r['kind'] in ('ParmVarDecl', 'VarDecl', 'VarTemplateSpecializationDecl'):
            if r['id'] in self.ast.var_scope_global:
                return self.global_value(r['id'], fr)
            v = self.load(fr, r['id'])
            if v is None:
                raise Unsupported('read of uninitialised %s' % r.get('name'))
            return v
        raise Unsupported('reference to ' + r['kind'])

    def global_value(self, did, fr):
        if did in self.consts:
            return self.consts[did]
        var = self.ast.by_id[did]
        if not any('Expr' in c.get('kind', '') or 'Literal' in c.get('kind', '') for c in kids(var)):
            cand = [v for v in (self.ast.by_id.get(i) for i in self.ast.var_scope_global)
                    if v.get('mangledName') and v.get('mangledName') == var.get('mangledName')
                    and any('Expr' in c.get('kind', '') or 'Literal' in c.get('kind', '') for c in kids(v))]
            if not cand:
                raise Unsupported('global without initialiser')
            var = cand[0]
        if not var.get('constexpr'):
            t = self.ex.resolve(var['type'])
            if not t.const:
                raise Unsupported('mutable global')
        init = [c for c in kids(var) if 'Expr' in c.get('kind', '') or 'Literal' in c.get('kind', '')]
        g = Frame()
        g.ft = X.FnTranslator(self.ex, None, 'global')
        v = self.expr(init[-1], g, 'true')
        self.consts[did] = v
        return v

    def x_MemberExpr(self, n, fr, path):
        (b,) = kids(n)
        if b.get('kind') == 'CXXThisExpr':
            return fr.this[n['name']]
        v = self.expr(b, fr, path)
        if not isinstance(v, dict):
            raise Unsupported('member of non-struct')
        return v[n['name']]

    def x_CXXThisExpr(self, n, fr, path):
        return fr.this

    def lvalue(self, n, fr):
        k = n.get('kind')
        if k in ('ParenExpr', 'ExprWithCleanups', 'MaterializeTemporaryExpr') or (k == 'ImplicitCastExpr' and n.get('castKind') == 'NoOp'):
            return self.lvalue(kids(n)[-1], fr)
        if k == 'DeclRefExpr':
            r = n['referencedDecl']
            v = fr.vars.get(r['id'])
            if isinstance(v, Ref):
                return self.deref(v)
            return ('var', fr, r['id'])
        if k == 'MemberExpr':
            (b,) = kids(n)
            if b.get('kind') == 'CXXThisExpr':
                raise Unsupported('write through this')
            t = self.lvalue(b, fr)
            if t[0] != 'var':
                raise Unsupported('nested member lvalue')
            return ('field', t[1], t[2], n['name'])
        if k == 'UnaryOperator' and n.get('opcode') == '*':
            raise Unsupported('pointer dereference')
        raise Unsupported('lvalue ' + k)

    def cast(self, n, fr, path):
        ck = n.get('castKind')
        a = kids(n)[-1]
        if ck in ('LValueToRValue', 'NoOp', 'ConstructorConversion', 'UserDefinedConversion'):
            return self.expr(a, fr, path)
        t = fr.ft.ty(n)
        st = fr.ft.ty(a)
        if ck in ('IntegralCast', 'BooleanToSignedIntegral'):
            return self.convert(self.expr(a, fr, path), st.base, t.base)
        if ck == 'IntegralToBoolean':
            v = self.expr(a, fr, path)
            return '(b2i %s)' % self.as_bool(v)
        if ck in ('IntegralToFloating', 'FloatingCast', 'FloatingToIntegral', 'FloatingToBoolean'):
            raise Unsupported('floating point conversion')
        raise Unsupported('cast ' + str(ck))

    x_ImplicitCastExpr = cast
    x_CStyleCastExpr = cast
    x_CXXStaticCastExpr = cast
    x_CXXFunctionalCastExpr = cast

    def x_UnaryExprOrTypeTraitExpr(self, n, fr, path):
        if n.get('name') != 'sizeof':
            raise Unsupported('type trait')
        t = self.ex.resolve(n['argType'], fr.ft) if 'argType' in n else fr.ft.ty(kids(n)[0])
        return str(SIZEOF[t.base])

    def x_ConditionalOperator(self, n, fr, path):
        c, a, b = kids(n)
        cnd = self.define('c', self.cond(c, fr, path), 'Bool')
        cnd = self.decide_condition(cnd, path, fr.ft.cname)
        if cnd == 'true':
            return self.expr(a, fr, path)
        if cnd == 'false':
            return self.expr(b, fr, path)
        va = self.expr(a, fr, '(and %s %s)' % (path, cnd))
        vb = self.expr(b, fr, '(and %s (not %s))' % (path, cnd))
        return self.merge(cnd, va, vb)

    def where(self, n, fr):
        loc = self.ast.loc.get(n.get('id'))
        return '%s' % (fr.ft.cname,)

    def arith(self, op, a, b, t, n, fr, path):
        """signed/unsigned arithmetic on C type t with overflow obligations"""
        ct = t.base
        if ct in X.FLOATS:
            raise Unsupported('floating point arithmetic')
        if op in ('+', '-', '*'):
            term = self.define('e', '(%s %s %s)' % (op, a, b))
            if ct in SIGNED_INT:
                lo, hi = rng(ct)
                self.oblige('overflow', path, '(and (<= %s %s) (<= %s %s))' % (lit(lo), term, term, lit(hi)),
                            '%s: signed %s in %s' % (self.where(n, fr), op, ct))
                return term
            return self.define('e', self.wrap(term, ct))
        if op in ('/', '%'):
            self.oblige('division-by-zero', path, '(not (= %s 0))' % b, '%s: %s' % (self.where(n, fr), op))
            if ct in SIGNED_INT:
                lo, hi = rng(ct)
                self.oblige('overflow', path, '(not (and (= %s %s) (= %s (- 1))))' % (a, lit(lo), b),
                            '%s: INT_MIN %s -1 in %s' % (self.where(n, fr), op, ct))
            return self.define('e', '(%s %s %s)' % ('tdiv' if op == '/' else 'tmod', a, b))
        raise Unsupported('arith op ' + op)

    def shift(self, op, a, bnode, t, n, fr, path, a_t):
        b = fold(self.expr(bnode, fr, path))
        m = re.match(r'^\d+$', b)
        bits = SIZEOF[t.base] * 8
        if not m:
            # symbolic distance: x << n == x * 2^n, x >> n == floor(x / 2^n), with 2^n the case table pow2
            self.oblige('undefined-shift', path, '(and (<= 0 %s) (< %s %d))' % (b, b, bits), '%s: shift distance in [0, %d)' % (self.where(n, fr), bits))
            p2 = self.define('p2', '(pow2 %s)' % b)
            if op == '<<':
                if t.base in SIGNED_INT:
                    lo, hi = rng(t.base)
                    self.oblige('undefined-shift', path, '(>= %s 0)' % a, '%s: left shift of negative value' % self.where(n, fr))
                    term = self.define('e', '(* %s %s)' % (a, p2))
                    self.oblige('overflow', path, '(<= %s %s)' % (term, lit(hi)), '%s: signed << overflow' % self.where(n, fr))
                    return term
                return self.define('e', self.wrap('(* %s %s)' % (a, p2), t.base))
            return self.define('e', '(div %s %s)' % (a, p2))
        c = int(b)
        if c >= bits:
            self.oblige('undefined-shift', path, 'false', '%s: shift distance %d too large' % (self.where(n, fr), c))
            return '0'
        if op == '<<':
            if t.base in SIGNED_INT:
                lo, hi = rng(t.base)
                self.oblige('undefined-shift', path, '(>= %s 0)' % a, '%s: left shift of negative value' % self.where(n, fr))
                term = self.define('e', '(* %s %d)' % (a, 1 << c))
                self.oblige('overflow', path, '(<= %s %s)' % (term, lit(hi)), '%s: signed << overflow' % self.where(n, fr))
                return term
            return self.define('e', self.wrap('(* %s %d)' % (a, 1 << c), t.base))
        # >> : arithmetic for signed (implementation-defined, GCC/Clang), floor division
        return self.define('e', '(div %s %d)' % (a, 1 << c))

    def mask(self, op, a, b, t, n, fr):
        """& with a literal mask 2^k-1 or ~(2^k-1) (two's complement): mod / multiple"""
        def const(v):
            m = re.match(r'^(\(- (\d+)\)|(\d+))$', v)
            if not m:
                return None
            return -int(m.group(2)) if m.group(2) else int(m.group(3))
        a, b = fold(a), fold(b)
        ca, cb = const(a), const(b)
        if ca is not None and cb is not None:
            bits = SIZEOF[t.base] * 8
            ua, ub = ca % (1 << bits), cb % (1 << bits)
            r = {'&': ua & ub, '|': ua | ub, '^': ua ^ ub}[op]
            if t.base in SIGNED_INT and r >= (1 << (bits - 1)):
                r -= 1 << bits
            return lit(r)
        if op != '&':
            raise Unsupported('bitwise %s on symbolic operands' % op)
        if cb is None:
            a, b, ca, cb = b, a, cb, ca
        if cb is None:
            raise Unsupported('bitwise & on two symbolic operands')
        if cb >= 0 and (cb + 1) & cb == 0:            # 2^k - 1
            return self.define('e', '(mod %s %d)' % (a, cb + 1))
        if cb < 0 and (-cb) & (-cb - 1) == 0:         # ~(2^k - 1) == -2^k
            return self.define('e', '(* %d (div %s %d))' % (-cb, a, -cb))
        raise Unsupported('bitwise & with mask %d' % cb)

    def x_BinaryOperator(self, n, fr, path):
        a, b = kids(n)
        op = n['opcode']
        t = fr.ft.ty(n)
        if op == '=':
            v = self.expr(b, fr, path)
            self.assign(fr, self.lvalue(a, fr), v, path)
            return v
        if op == ',':
            self.expr(a, fr, path)
            return self.expr(b, fr, path)
        if op in ('&&', '||'):
            ca = self.define('c', self.cond(a, fr, path), 'Bool')
            p2 = '(and %s %s)' % (path, ca if op == '&&' else '(not %s)' % ca)
            cb = self.cond(b, fr, p2)
            return '(b2i (%s %s %s))' % ('and' if op == '&&' else 'or', ca, cb)
        va = self.expr(a, fr, path)
        vb = self.expr(b, fr, path)
        if isinstance(va, dict) or isinstance(vb, dict):
            raise Unsupported('struct operand of built-in operator')
        if op in ('<', '<=', '>', '>=', '==', '!='):
            if fr.ft.ty(a).base in X.FLOATS:
                raise Unsupported('floating point comparison')
            if op == '!=':
                return '(b2i (not (= %s %s)))' % (va, vb)
            return '(b2i (%s %s %s))' % ('=' if op == '==' else op, va, vb)
        if op in ('<<', '>>'):
            return self.shift(op, va, b, t, n, fr, path, fr.ft.ty(a))
        if op in ('&', '|', '^'):
            return self.mask(op, va, vb, t, n, fr)
        return self.arith(op, va, vb, t, n, fr, path)

    def x_CompoundAssignOperator(self, n, fr, path):
        a, b = kids(n)
        op = n['opcode'][:-1]
        lt = self.ex.resolve(n['computeLHSType'], fr.ft)
        rt = self.ex.resolve(n['computeResultType'], fr.ft)
        at = fr.ft.ty(a)
        va = self.convert(self.expr(a, fr, path), at.base, lt.base)
        if op in ('<<', '>>'):
            v = self.shift(op, va, b, rt, n, fr, path, at)
        else:
            vb = self.expr(b, fr, path)
            if op in ('&', '|', '^'):
                v = self.mask(op, va, vb, rt, n, fr)
            else:
                v = self.arith(op, va, vb, rt, n, fr, path)
        v = self.convert(v, rt.base, at.base)
        self.assign(fr, self.lvalue(a, fr), v, path)
        return v

    def x_UnaryOperator(self, n, fr, path):
        (a,) = kids(n)
        op = n['opcode']
        t = fr.ft.ty(n)
        if op == '!':
            return '(b2i (not %s))' % self.cond(a, fr, path)
        if op == '+':
            return self.expr(a, fr, path)
        if op == '-':
            v = self.expr(a, fr, path)
            m = re.match(r'^\d+$', v)
            term = lit(-int(v)) if m else self.define('e', '(- %s)' % v)
            if t.base in SIGNED_INT:
                lo, hi = rng(t.base)
                if not m:
                    self.oblige('overflow', path, '(<= %s %s)' % (term, lit(hi)), '%s: signed unary minus' % self.where(n, fr))
                return term
            return self.define('e', self.wrap(term, t.base))
        if op == '~':
            v = self.expr(a, fr, path)
            m = re.match(r'^\d+$', v)
            term = lit(-int(v) - 1) if m else self.define('e', '(- (- %s) 1)' % v)
            if t.base in SIGNED_INT:
                return term
            return self.define('e', self.wrap(term, t.base))
        if op == '&':
            lv = self.lvalue(a, fr)
            if lv[0] != 'var':
                raise Unsupported('address of field')
            return Ref(lv[1], lv[2])
        raise Unsupported('unary ' + op)

    # ---- calls
    def callee_decl(self, c):
        while c.get('kind') in ('ImplicitCastExpr', 'ParenExpr'):
            c = kids(c)[0]
        if c.get('kind') == 'DeclRefExpr':
            return self.ast.by_id.get(c['referencedDecl']['id']) or c['referencedDecl']
        if c.get('kind') == 'MemberExpr':
            return self.ast.by_id[c.get('referencedMemberDecl')]
        raise Unsupported('callee')

    def x_CallExpr(self, n, fr, path):
        ch = kids(n)
        decl = self.callee_decl(ch[0])
        args = ch[1:]
        name = decl.get('name', '')
        if name.startswith('__builtin_'):
            return self.builtin(name, args, n, fr, path)
        d = self.ast.fn_def_by_mangled.get(decl.get('mangledName')) or decl
        params = [c for c in kids(d) if c.get('kind') == 'ParmVarDecl']
        vals = []
        if decl.get('kind') in ('CXXMethodDecl', 'CXXConversionDecl') and decl.get('storageClass') != 'static':
            callee = ch[0]
            while callee.get('kind') in ('ImplicitCastExpr', 'ParenExpr'):
                callee = kids(callee)[0]
            vals.append(self.expr(kids(callee)[0], fr, path))
        for p, a in zip(params, args):
            pt = self.ex.resolve(p['type'], fr.ft)
            if pt.ref == 'lref':
                lv = self.lvalue(a, fr)
                if lv[0] != 'var':
                    raise Unsupported('reference to field')
                vals.append(Ref(lv[1], lv[2]))
            else:
                vals.append(self.expr(a, fr, path))
        mg = decl.get('mangledName')
        if mg in self.replace:
            return self.apply_contract(mg, d, vals, path)
        return self.call_node(d, vals, path)

    x_UserDefinedLiteral = x_CallExpr
    x_CXXMemberCallExpr = x_CallExpr

    def x_CXXOperatorCallExpr(self, n, fr, path):
        ch = kids(n)
        decl = self.callee_decl(ch[0])
        if decl.get('kind') == 'CXXMethodDecl':
            name = decl.get('name')
            if name == 'operator=' and (decl.get('explicitlyDefaulted') or decl.get('isImplicit')):
                v = self.expr(ch[2], fr, path)
                self.assign(fr, self.lvalue(ch[1], fr), v, path)
                return v
            raise Unsupported('member operator ' + str(name))
        return self.x_CallExpr(n, fr, path)

    def x_CXXConstructExpr(self, n, fr, path):
        t = fr.ft.ty(n)
        args = kids(n)
        ct = n.get('ctorType', {}).get('qualType', '')
        if len(args) == 0:
            return {f[1]: '0' for f in self.ex.structs[t.base]}
        m = re.match(r'^void \((.*)\)( noexcept)?$', ct)
        if len(args) == 1:
            pt = self.ex.resolve_str(m.group(1), fr.ft)
            if pt.base == t.base and pt.ref in ('cref', 'rref'):
                return self.expr(args[0], fr, path)
        # converting constructor: locate like the C printer does
        tmp = X.FnTranslator(self.ex, None, 'ctor')
        tmp.aliases = fr.ft.aliases
        cands = [d for m_, d in self.ast.fn_def_by_mangled.items()
                 if d.get('kind') == 'CXXConstructorDecl' and d['type']['qualType'] == ct and d['id'] in self.ast.parent_record
                 and self.ast.rec_qual[self.ast.parent_record[d['id']]['id']].split('::')[-1] == t.base]
        if len(set(d['mangledName'] for d in cands)) != 1:
            raise Unsupported('constructor lookup %s %s' % (t.base, ct))
        vals = [self.expr(a, fr, path) for a in args]
        return self.call_node(cands[0], vals, path)

    x_CXXTemporaryObjectExpr = x_CXXConstructExpr

    def builtin(self, name, args, n, fr, path):
        if name == '__builtin_expect':
            return self.expr(args[0], fr, path)
        if name in ('__builtin_mul_overflow', '__builtin_add_overflow', '__builtin_sub_overflow'):
            a = self.expr(args[0], fr, path)
            b = self.expr(args[1], fr, path)
            ref = self.expr(args[2], fr, path)
            if not isinstance(ref, Ref):
                raise Unsupported('overflow builtin result pointer')
            rt = fr.ft.ty(args[2])
            op = {'mul': '*', 'add': '+', 'sub': '-'}[name[10:13]]
            p = self.define('e', '(%s %s %s)' % (op, a, b))
            r = self.define('e', self.wrap(p, rt.base))
            self.assign(fr, self.deref(ref), r, path)
            return '(b2i (not (= %s %s)))' % (p, r)
        if name == '__builtin_is_constant_evaluated':
            return '0'
        if name in ('__builtin_clz', '__builtin_clzl', '__builtin_clzll'):
            # c = clz(v) for v > 0 is the unique c with 2^(B-1-c) <= v < 2^(B-c); v == 0 is undefined behaviour (obligation)
            B = {'__builtin_clz': 32, '__builtin_clzl': 64, '__builtin_clzll': 64}[name]
            v = self.expr(args[0], fr, path)
            self.oblige('clz-of-zero', path, '(not (= %s 0))' % v, '%s: %s(0)' % (self.where(n, fr), name))
            c = self.fresh('clz')
            self.assumes.append('(=> (and %s (> %s 0)) (and (<= 0 %s) (<= %s %d) (<= (pow2 (- %d %s)) %s) (< %s (pow2 (- %d %s)))))' % (path, v, c, c, B - 1, B - 1, c, v, v, B, c))
            # the same fact once more as 2B linear implications (consequences of the line above, so nothing new is assumed): with
            # bounds on v they fix c by propagation instead of a 64-way case split
            hints = ' '.join('(=> (>= %s %d) (<= %s %d)) (=> (< %s %d) (>= %s %d))' % (v, 1 << k, c, B - 1 - k, v, 1 << (k + 1), c, B - 1 - k) for k in range(B))
            self.assumes.append('(=> (and %s (> %s 0)) (and %s))' % (path, v, hints))
            self.value_hint(c, path, '%s: %s' % (self.where(n, fr), name))
            return c
        raise Unsupported('builtin ' + name)

    def entailed(self, path, fact, secs=8):
        """True iff `fact` holds under everything assumed so far and `path` (proved by the solver portfolio); only with hints on"""
        if not self.hints:
            return False
        base = PRELUDE + '\n'.join(self.decls) + '\n' + '\n'.join('(assert %s)' % a for a in self.asserts) + '\n' + \
            '\n'.join('(assert %s)' % a for a in self.assumes) + '\n(assert %s)\n' % path
        self.hint_n += 1
        st, _, _, _ = solve_query(base + '(assert (not %s))\n(check-sat)\n' % fact, secs, self.hints, 'hint%d_entailed' % self.hint_n)
        return st == 'unsat'

    def decide_condition(self, cnd, path, where):
        """Solver-aided branch pruning (hints on): a branch condition that is constant under the current path is replaced by the
        literal, after the fact has been registered as an obligation of its own (`value-hint`), so only the reachable arm is executed."""
        if not self.hints or cnd in ('true', 'false'):
            return cnd
        for lit_, fact in (('false', '(not %s)' % cnd), ('true', cnd)):
            if self.entailed(path, fact):
                self.oblige('value-hint', path, fact, '%s: branch condition is always %s on this path (derived fact)' % (where, lit_))
                self.assumes.append('(=> %s %s)' % (path, fact))
                return lit_
        return cnd

    def value_hint(self, c, path, where):
        """Solver-aided constant propagation (only when the unit asks for it).  If, under everything assumed so far and the current
        path, the fresh constant c can take exactly one value k -- found from a model, then PROVED as the obligation `path => c == k` -- the
        proved fact is added as an assumption for what follows.  Nothing unproved is assumed: the obligation is part of the unit and is
        discharged again with all others.  (A slice selector in the precondition typically fixes clz results and hence shift distances;
        non-linear solvers do much better with the literal.)"""
        if not self.hints:
            return
        base = PRELUDE + '\n'.join(self.decls) + '\n' + '\n'.join('(assert %s)' % a for a in self.asserts) + '\n' + \
            '\n'.join('(assert %s)' % a for a in self.assumes) + '\n(assert %s)\n' % path
        self.hint_n += 1
        st, _, _, out = solve_query(base + '(check-sat)\n(get-value (%s))\n' % c, 30, self.hints, 'hint%d_model' % self.hint_n)
        if st != 'sat':
            return
        vals = parse_values(out)
        if c not in vals:
            return
        k = lit(vals[c])
        st, _, _, _ = solve_query(base + '(assert (not (= %s %s)))\n(check-sat)\n' % (c, k), 30, self.hints, 'hint%d_unique' % self.hint_n)
        if st != 'unsat':
            return
        self.oblige('value-hint', path, '(= %s %s)' % (c, k), '%s == %s on this path (derived fact, used as a lemma below)' % (where, k))
        self.assumes.append('(=> %s (= %s %s))' % (path, c, k))

    def apply_contract(self, mg, d, vals, path):
        pre, post = self.replace[mg]
        if any(isinstance(v, Ref) for v in vals):
            raise Unsupported('contract replacement of a function with reference parameters')
        if pre.startswith('UF'):
            # determinism abstraction: uninterpreted function of the (flattened) arguments; 'UFR' additionally states that the result is
            # a value of the return type (opt-in: the extra facts perturb the solver on units that do not need them)
            ranged = pre.startswith('UFR')
            if ranged:
                pre = 'UF' + pre[3:]
            flat = []
            for v in vals:
                flat += list(v.values()) if isinstance(v, dict) else [v]
            ft = X.FnTranslator(self.ex, d, 'c')
            ft.collect_aliases(d)
            rt = ft.ret_type(d, None, d['type']['qualType'])
            base = 'uf_' + re.sub(r'[^A-Za-z0-9_]', '_', mg)[-40:]
            fields = [f[1] for f in self.ex.structs[rt.base]] if rt.is_struct() else [None]
            out = {}
            for fld in fields:
                name = base + ('_' + fld if fld else '')
                decl = '(declare-fun %s (%s) Int)' % (name, ' '.join(['Int'] * len(flat)))
                if decl not in self.decls:
                    self.decls.append(decl)
                out[fld] = self.define('uf', '(%s %s)' % (name, ' '.join(flat)))
                # the result is a value of the function's return type (same range fact as for a contract-replaced call)
                fty = dict((f[1], f[0]) for f in self.ex.structs[rt.base])[fld] if rt.is_struct() else rt.base
                if ranged and fty not in X.FLOATS:
                    lo, hi = rng(fty)
                    self.assumes.append('(and (<= %s %s) (<= %s %s))' % (lit(lo), out[fld], out[fld], lit(hi)))
            res = out if rt.is_struct() else out[None]
            if post:
                # ... that additionally satisfies the function's (proved) contract on its domain
                guard = 'true'
                if pre.startswith('UF:'):
                    guard = self.define('pre', self.as_bool(self.call_by_mangled(pre[3:], list(vals), path)), 'Bool')
                g = self.call_by_mangled(post, list(vals) + [res], '(and %s %s)' % (path, guard))
                self.assumes.append('(=> (and %s %s) %s)' % (path, guard, self.as_bool(g)))
            return res
        pre_term = 'true'
        if pre:
            g = self.call_by_mangled(pre, list(vals), path)
            pre_term = self.define('pre', self.as_bool(g), 'Bool')
            self.oblige('precondition', path, pre_term, 'requires %s at call of %s' % (pre, d.get('name')))
        ft = X.FnTranslator(self.ex, d, 'c')
        ft.collect_aliases(d)
        rt = ft.ret_type(d, None, d['type']['qualType'])
        res = self.input_value('res_' + (d.get('name') or 'f'), rt)
        # the contract holds whenever the call is reached WITH its precondition satisfied; the postcondition predicate is evaluated
        # under exactly that condition (its own arithmetic obligations are only meaningful there)
        g = self.call_by_mangled(post, list(vals) + [res], '(and %s %s)' % (path, pre_term))
        self.assumes.append('(=> (and %s %s) %s)' % (path, pre_term, self.as_bool(g)))
        return res


# ------------------------------------------------------------------------------ driver
SOLVERS = [
    ('cvc5', ['cvc5', '--lang', 'smt2', '--produce-models', '--nl-ext-tplanes']),
    ('z3-new', ['z3-new', '-smt2']),
    ('z3', ['z3', '-smt2']),
]


# second round for obligations the first round leaves undecided: non-linear queries are sensitive to the solver's random choices, so the
# same query is handed to a portfolio of seeds/strategies (any `unsat`/`sat` answer is an answer about the same formula)
RETRY_SOLVERS = [('z3-new/seed%d' % k, ['z3-new', '-smt2', 'smt.random_seed=%d' % k, 'sat.random_seed=%d' % k]) for k in (1, 2, 3, 4, 5, 6, 7)] + \
    [('z3/seed%d' % k, ['z3', '-smt2', 'smt.random_seed=%d' % k]) for k in (1, 2, 3)] + \
    [('cvc5/tplanes-interleave', ['cvc5', '--lang', 'smt2', '--produce-models', '--nl-ext-tplanes', '--nl-ext-tplanes-interleave']),
     ('cvc5/seed7', ['cvc5', '--lang', 'smt2', '--produce-models', '--nl-ext-tplanes', '--seed=7'])]


def solve_query(text, timeout, workdir, tag, solvers=None):
    """portfolio, first definitive answer wins; returns (status, solver, seconds, model_text)"""
    os.makedirs(workdir, exist_ok=True)
    path = os.path.join(workdir, tag + '.smt2')
    with open(path, 'w') as f:
        f.write(text)
    t0 = time.time()
    procs = []
    for name, cmd in (solvers or SOLVERS):
        if shutil.which(cmd[0]) is None:
            continue
        procs.append((name, subprocess.Popen(cmd + [path], stdout=subprocess.PIPE, stderr=subprocess.PIPE, text=True)))
    result = ('unknown', None, 0.0, '')
    deadline = t0 + timeout
    live = list(procs)
    while live and time.time() < deadline:
        for name, p in list(live):
            rc = p.poll()
            if rc is None:
                continue
            live.remove((name, p))
            out = p.stdout.read()
            first = out.strip().split('\n')[0] if out.strip() else ''
            if first in ('sat', 'unsat'):
                result = (first, name, time.time() - t0, out)
                live = []
                break
        time.sleep(0.01)
    for name, p in procs:
        if p.poll() is None:
            p.kill()
        try:
            p.wait(timeout=5)
        except Exception:
            pass
    if result[0] == 'unknown':
        result = ('unknown', None, time.time() - t0, '')
    return result


def bits_of(v, ctype):
    lo, hi = rng(ctype)
    w = (hi - lo + 1).bit_length() - 1
    return format(v % (1 << w), '0%db' % w)


def parse_values(out):
    vals = {}
    for m in re.finditer(r'\((v\d+_\w+) (\(- (\d+)\)|(\d+))\)', out):
        vals[m.group(1)] = -int(m.group(3)) if m.group(3) else int(m.group(4))
    return vals


_VAR = re.compile(r'v\d+_\w+')


def cone_of_influence(asserts, assumes, roots, always=(), relaxed=False):
    """Query slicing.  Every element of `asserts` defines one fresh constant, `(= vN term)`: a definition whose constant the query does
    not mention can be dropped without changing satisfiability.  Assumptions (preconditions, callee contracts, clz facts) may always be
    dropped when PROVING (fewer hypotheses); one is kept iff every undefined constant it mentions, directly or through definitions (inputs, callee results, clz
    results), already occurs in the slice -- e.g. the contract of a call on another path speaks about that call's result and is left out.
    Iterated to a fixpoint.  Keeps the non-linear terms of paths the obligation is not about out of the solver's way.
    `relaxed`: an assumption is also kept when it shares at least one such constant (other than an input) with the slice.
    Dropping hypotheses can only turn `unsat` into `sat`, never the reverse: an `unsat` answer on a slice is a proof, a `sat` answer on a
    slice means nothing and the caller moves on to the next larger query (aggressive -> relaxed -> everything)."""
    defs = {}
    for a in asserts:
        m = re.match(r'^\(= (v\d+_\w+) ', a)
        if m:
            defs[m.group(1)] = a
    cone = set()

    def add(text):
        todo = list(_VAR.findall(text))
        while todo:
            v = todo.pop()
            if v in cone:
                continue
            cone.add(v)
            if v in defs:
                todo += _VAR.findall(defs[v])
    def undefined_of(text):
        # the undefined constants an assumption speaks about, directly or through definitions
        seen, out, todo = set(), set(), list(_VAR.findall(text))
        while todo:
            v = todo.pop()
            if v in seen:
                continue
            seen.add(v)
            if v in defs:
                todo += _VAR.findall(defs[v])
            else:
                out.add(v)
        return out
    for r in roots:
        add(r)
    for v in always:          # the inputs: the precondition speaks about all of them at once
        add(v)
    kept = [False] * len(assumes)
    changed = True
    while changed:
        changed = False
        for i, a in enumerate(assumes):
            if kept[i]:
                continue
            und = undefined_of(a)
            if all(v in cone for v in und) or (relaxed and any(v in cone and v not in always for v in und)):
                kept[i] = True
                add(a)
                changed = True
    return [a for a in asserts if not re.match(r'^\(= (v\d+_\w+) ', a) or re.match(r'^\(= (v\d+_\w+) ', a).group(1) in cone], \
        [a for i, a in enumerate(assumes) if kept[i]]


def solve_unit_int(unit, workdir, core, seed=0):
    """same result shape as core.solve_unit"""
    udir = os.path.join(workdir, re.sub(r'[^A-Za-z0-9_.-]', '_', unit.id))
    shutil.rmtree(udir, ignore_errors=True)
    os.makedirs(udir, exist_ok=True)
    t_start = time.time()
    res = {'unit': unit.id, 'obligations': [], 'undecided': [], 'errors': [], 'meta': None, 'udir': udir, 'warnings': []}
    try:
        ast = core.get_ast(unit.cfg)
        ex = X.Extractor(ast)
        cn = ex.require_mangled(unit.fn)       # C printer run: resolves structs, must-fire rules, metadata
        f = ex.funcs[cn]
        wp = IntWP(ast, ex, replace={g: (gpre, gpost) for (g, gpre, gpost) in unit.replace})
        if getattr(unit, 'split_returns', False):
            wp.hints = os.path.join(udir, 'hints')
        node = ast.fn_def_by_mangled[unit.fn]
        inputs, in_names = [], []
        for i, (pname, t) in enumerate(f['params']):
            if t.ref == 'lref':
                raise Unsupported('INT unit on a function with reference parameters')
            v = wp.input_value('in%d' % i, t)
            inputs.append(v)
            in_names.append((i, t, v))
        if unit.pre:
            g = wp.call_by_mangled(unit.pre, list(inputs) + [lit(int(c)) for c in unit.pre_consts], 'true')
            wp.assumes.append(wp.as_bool(g))
        n_pre_obl = len(wp.obligations)
        n_pre_assumes = len(wp.assumes)
        sites = [] if getattr(unit, 'split_returns', False) else None
        ret = wp.call_node(node, list(inputs), 'true', top_sites=sites)
        if sites and unit.post and not unit.lemma:
            # one postcondition obligation per return statement of the function under contract (path => post(value returned there));
            # together they are the postcondition of the merged value, in smaller queries
            parts = list(getattr(unit, 'post_split', ())) or [unit.post]      # conjuncts of unit.post, one obligation each
            for k_, (g_, v_) in enumerate(sites):
                for part in parts:
                    pg = wp.call_by_mangled(part, list(inputs) + [v_], g_)
                    wp.oblige('postcondition', g_, wp.as_bool(pg), 'ensures %s at return #%d' % (part, k_ + 1))
            wp.oblige('postcondition', 'true', '(or %s)' % ' '.join(g_ for g_, _ in sites), 'the return statements cover every path')
        elif unit.lemma:
            wp.oblige('postcondition', 'true', wp.as_bool(ret), 'lemma %s returns true' % f['name'])
        elif unit.post:
            g = wp.call_by_mangled(unit.post, list(inputs) + ([ret] if f['ret'].base != 'void' else []), 'true')
            wp.oblige('postcondition', 'true', wp.as_bool(g), 'ensures %s' % unit.post)
    except (Unsupported, ExtractError) as e:
        res['errors'].append('INT back end: %s' % e)
        return res
    meta = {
        'cname': cn, 'params': [(n, t.c(), t.ref) for n, t in f['params']], 'ret': (f['ret'].c(), f['ret'].ref),
        'src': ex.fn_src.get(cn), 'functions': {c: ex.fn_src.get(c) for c in ex.funcs},
        'loops': ex.loops.get(cn, 0), 'dropped': dict(ex.dropped), 'externals': sorted(ex.externals),
        'sideeffect_args': [], 'replaced': [X.cname_of(g) for g, _, _ in unit.replace],
        'qualname': f['qual'] + '::' + (f['name'] or ''), 'type': f['type'], 'uf_abstracted': [],
    }
    res['meta'] = meta
    base = PRELUDE + '\n'.join(wp.decls) + '\n' + '\n'.join('(assert %s)' % a for a in wp.asserts) + '\n' + \
        '\n'.join('(assert %s)' % a for a in wp.assumes) + '\n'
    getvals = []
    for i, t, v in in_names:
        getvals += list(v.values()) if isinstance(v, dict) else [v]
    queries = []
    counts = {}
    decls = PRELUDE + '\n'.join(wp.decls) + '\n'
    for (name, path, goal, where, n_assumes, n_asserts) in wp.obligations:
        counts[name] = counts.get(name, 0) + 1
        oid = '%s.%s.%d' % (cn, name, counts[name])
        # definitional equalities are harmless (each defines a fresh constant); assumptions are cut at program order
        def text(asserts_q, assumes_q, path=path, goal=goal):
            return decls + '\n'.join('(assert %s)' % a for a in asserts_q) + '\n' + '\n'.join('(assert %s)' % a for a in assumes_q) + \
                '\n(assert %s)\n(assert (not %s))\n(check-sat)\n(get-value (%s))\n' % (path, goal, ' '.join(getvals))
        full = text(wp.asserts, wp.assumes[:n_assumes])
        if getattr(unit, 'split_returns', False):
            levels = [text(*cone_of_influence(wp.asserts, wp.assumes[:n_assumes], [path, goal], getvals)),
                      text(*cone_of_influence(wp.asserts, wp.assumes[:n_assumes], [path, goal], getvals, relaxed=True)), full]
            levels = [q_ for k_, q_ in enumerate(levels) if q_ not in levels[:k_]]
        else:
            levels = [full]
        queries.append((oid, where, levels))
    canary_q = base + '(check-sat)\n'
    if getattr(unit, 'split_returns', False):
        # non-linear satisfiability is the hard direction: first find inputs satisfying the precondition alone (linear), then ask for
        # the rest (callee results ...) with the inputs fixed to that witness; fall back to the general query if that is not `sat`
        pre_only = decls + '\n'.join('(assert %s)' % a for a in wp.asserts) + '\n' + '\n'.join('(assert %s)' % a for a in wp.assumes[:n_pre_assumes]) + \
            '\n(check-sat)\n(get-value (%s))\n' % ' '.join(getvals)
        st_, _, _, out_ = solve_query(pre_only, 60, udir, 'canary_inputs')
        if st_ == 'sat':
            vals_ = parse_values(out_)
            fix = ''.join('(assert (= %s %s))\n' % (v_, lit(vals_[v_])) for v_ in getvals if v_ in vals_)
            st2, _, _, _ = solve_query(base + fix + '(check-sat)\n', 60, udir, 'canary_witness')
            if st2 == 'sat':
                canary_q = base + fix + '(check-sat)\n'
    queries.append(('%s.vf_canary' % cn, 'vf_canary: precondition and assumed contracts are satisfiable', [canary_q]))

    def one(item):
        oid, where, levels = item
        tag = re.sub(r'[^A-Za-z0-9_.-]', '_', oid)[-80:]
        if not getattr(unit, 'split_returns', False):
            with core._SEM:
                return item, solve_query(levels[0], unit.timeout, udir, tag)
        # sliced queries first; only `unsat` is final on a slice, only the complete query can report a counterexample
        r = ('unknown', None, 0.0, '')
        saw_sat = False
        for k, q in enumerate(levels):
            last = k == len(levels) - 1
            with core._SEM:
                r = solve_query(q, min(unit.timeout, 60), udir, '%s.l%d' % (tag, k))
            # second round (seed portfolio): on the smallest slice always; on the complete query only when a slice answered `sat`
            # (a counterexample is plausible and only the complete query can confirm it); total time per obligation stays bounded
            if r[0] == 'unknown' and (k == 0 or (last and saw_sat)):
                with core._SEM:
                    r = solve_query(q, min(unit.timeout, 180), udir, '%s.l%d.retry' % (tag, k), solvers=RETRY_SOLVERS)
            if r[0] == 'unsat' or (r[0] == 'sat' and last):
                return item, r
            saw_sat = saw_sat or r[0] == 'sat'
        return item, ('unknown', None, r[2], '')
    with concurrent.futures.ThreadPoolExecutor(max_workers=core.NCPU) as tp:
        for (oid, where, q), (st, solver, dt, out) in tp.map(one, queries):
            if st == 'unknown':
                res['undecided'].append({'name': oid, 'desc': where})
                continue
            rec = {'name': oid, 'desc': where, 'status': 'SUCCESS' if st == 'unsat' else 'FAILURE',
                   'backend': 'int:' + solver, 'seconds': round(dt, 2), 'line': None, 'function': cn, 'lib': False}
            if st == 'sat' and 'vf_canary' not in oid:
                vals = parse_values(out)
                inp = {}
                for i, t, v in in_names:
                    if isinstance(v, dict):
                        fld = list(v.values())[0]
                        ft_ = ex.structs[t.base][0][0]
                        if fld in vals:
                            inp['in_%d' % i] = bits_of(vals[fld], ft_)
                    elif v in vals:
                        inp['in_%d' % i] = bits_of(vals[v], t.base)
                rec['inputs'] = inp
            res['obligations'].append(rec)
    res['seconds'] = round(time.time() - t_start, 2)
    res['binary'] = None
    return res
