#!/usr/bin/env python3
"""regenerate MANIFEST.json from spec/bind.py (python3 -m vfx.manifest)"""
import json, os, sys
VERIF = os.path.dirname(os.path.dirname(os.path.abspath(__file__)))
sys.path.insert(0, VERIF)
from spec import bind

ALL = ['C%02d' % i for i in range(1, 21)]
CATEGORY = {'proof': 'proof', 'other': 'other'}


def main():
    checks = []
    for pid in ALL:
        if pid not in bind.PROPS or not bind.units(pid) and not bind._EXTRAS.get(pid):
            continue
        info = bind.PROPS[pid]
        checks.append({
            'property_id': pid,
            'quick_cmd': './check %s --tier quick' % pid,
            'thorough_cmd': './check %s --tier thorough' % pid,
            'evidence_file': 'evidence/%s.json' % pid,
            'replay_cmd_template': './check replay {path}',
            'engine': 'vfx',
            'level_claimed': {'category': info['level'], 'text': info['explanation'], 'design_ref': 'DESIGN.md section 4 (%s)' % pid},
            'level_note': info.get('level_note', 'Trusted: clang 14 AST, the AST->C extractor (mechanical, must-fire rules), CBMC 6.11 dfcc + SAT/SMT back ends, LP64 implementation-defined behaviour, IEEE-754 RNE; ') + ' Assumptions: ' + '; '.join(info.get('assumptions', []) or ['none beyond the trusted base']),
            'technique': info.get('technique', 'CBMC function contracts (requires/ensures/assigns) enforced with goto-instrument --dfcc on C extracted mechanically from the clang AST of the real headers'),
        })
    na = [{'property_id': p, 'reason': bind.NOT_APPLICABLE.get(p, 'not built yet in this session (no check registered)')}
          for p in ALL if p not in [c['property_id'] for c in checks]]
    m = {
        'version': 1,
        'setup_cmd': 'mkdir -p build evidence && python3 -m vfx.selftest',
        'hooks': {'guard': 'FIXEDMATH_VERIF_PORTABLE_MULTIPLY',
                  'enable': 'contracts are attached to the C extracted from the unmodified headers; the only hook is -DFIXEDMATH_VERIF_PORTABLE_MULTIPLY, passed to clang for the `portable` configuration of C02 so that the non-GNU fall-back branch of detail::checked_multiply is compiled and can be verified; with the macro undefined the preprocessed source is unchanged',
                  'baseline_off_cmd': 'ctest --test-dir /repo/_build -j8 --timeout 900', 'source_commits': ['3fd7483'],
                  'add_only': False},
        'engines': [{'name': 'vfx', 'path': 'vfx/', 'serves_properties': [c['property_id'] for c in checks],
                     'kind_free_text': 'clang AST -> C extraction + CBMC code contracts (goto-instrument --dfcc) with a SAT/SMT portfolio; second back end on the same AST: weakest-precondition style symbolic execution into SMT-LIB integer arithmetic (cvc5/z3) with range obligations and contract replacement, used for division, range reduction and the non-linear accuracy clauses; native replay of counterexamples against the real headers; labelled native scans as stand-ins / cross-checks'}],
        'checks': checks,
        'not_applicable': na,
        'notes': 'See DESIGN.md. Exit codes of ./check: 0 held, 1 violation, 2 undecided/machinery broken (never a verdict).',
    }
    with open(os.path.join(VERIF, 'MANIFEST.json'), 'w') as f:
        json.dump(m, f, indent=1)
    print('MANIFEST.json: %d checks, %d not_applicable' % (len(checks), len(na)))


if __name__ == '__main__':
    main()
