#!/usr/bin/env python3
"""
vfx.core -- build (AST dump + extraction), obligation scheduling, CBMC portfolio,
result parsing, evidence.  See DESIGN.md section 3.
"""
import os, sys, json, hashlib, subprocess, time, shutil, re, tempfile, concurrent.futures, glob

VERIF = os.path.dirname(os.path.dirname(os.path.abspath(__file__)))
REPO = os.environ.get('VF_REPO', '/repo')
BUILD = os.path.join(VERIF, 'build')
SPEC = os.path.join(VERIF, 'spec')
sys.path.insert(0, VERIF)
from vfx import extract as X

NCPU = int(os.environ.get('VF_JOBS', '16'))
CONFIGS = {
    'abacus': ['-std=c++17', '-DFIXEDMATH_ENABLE_SQRT_ABACUS_ALGO'],
    'stdsqrt': ['-std=c++17'],
    # verification hook (MANIFEST.hooks): the portable (non-GNU) branch of detail::checked_multiply
    'portable': ['-std=c++17', '-DFIXEDMATH_ENABLE_SQRT_ABACUS_ALGO', '-DFIXEDMATH_VERIF_PORTABLE_MULTIPLY'],
}
CBMC_CHECKS = ['--signed-overflow-check', '--undefined-shift-check', '--div-by-zero-check',
               '--bounds-check', '--pointer-check']
BACKENDS = {
    'sat': [],
    'cadical': ['--sat-solver', 'cadical'],
    'kissat': ['--external-sat-solver', 'kissat'],
    'z3': ['--z3'],
    'cvc5': ['--cvc5'],
    'z3fpa': ['--z3', '--fpa'],
    'cvc5fpa': ['--cvc5', '--fpa'],
}
LIB_PREFIXES = ('__CPROVER_contracts', 'free.', 'malloc.', 'calloc.', 'realloc.', '__CPROVER_')


class Undecided(Exception):
    pass


def log(*a):
    print(*a, file=sys.stderr, flush=True)


# --------------------------------------------------------------------------- hashing / AST
def tree_hash():
    h = hashlib.sha256()
    files = []
    for root in (os.path.join(REPO, 'fixed_lib', 'include'), os.path.join(REPO, 'fixed_lib', 'src'), SPEC,
                 os.path.join(VERIF, 'vfx')):
        for dp, dn, fn in os.walk(root):
            dn[:] = sorted(d for d in dn if d != '__pycache__')
            for f in sorted(fn):
                if f.endswith(('.h', '.hpp', '.cc', '.py', '.cpp')):
                    files.append(os.path.join(dp, f))
    for f in files:
        h.update(f.encode())
        with open(f, 'rb') as fh:
            h.update(fh.read())
    return h.hexdigest()[:20]


_AST_CACHE = {}


def get_ast(cfg):
    """clang AST of spec/all.cc for one configuration, cached on the tree hash"""
    if cfg in _AST_CACHE:
        return _AST_CACHE[cfg]
    os.makedirs(BUILD, exist_ok=True)
    th = tree_hash()
    jpath = os.path.join(BUILD, 'astp_%s_%s.json' % (cfg, th))
    if not os.path.exists(jpath):
        for old in glob.glob(os.path.join(BUILD, 'astp_%s_*.json' % cfg)):
            os.unlink(old)
        cmd = ['clang++'] + CONFIGS[cfg] + ['-fsyntax-only', '-Wno-everything',
               '-I' + os.path.join(REPO, 'fixed_lib', 'include'), '-I' + os.path.join(REPO, 'fixed_lib', 'src'),
               '-I' + SPEC, '-Xclang', '-ast-dump=json', os.path.join(SPEC, 'all.cc')]
        t0 = time.time()
        tmp = jpath + '.tmp%d' % os.getpid()
        with open(tmp, 'w') as out:
            r = subprocess.run(cmd, stdout=out, stderr=subprocess.PIPE, text=True)
        if r.returncode != 0:
            os.unlink(tmp)
            raise Undecided('clang failed on spec/all.cc (%s):\n%s' % (cfg, r.stderr[-4000:]))
        with open(tmp) as fh:
            full = json.load(fh)
        pruned = X.prune(full)
        del full
        with open(tmp, 'w') as fh:
            json.dump(pruned, fh)
        del pruned
        os.rename(tmp, jpath)
        log('[build] clang AST dump + prune %s: %.1fs' % (cfg, time.time() - t0))
    t0 = time.time()
    ast = X.load_ast(jpath)
    log('[build] AST %s loaded: %.1fs' % (cfg, time.time() - t0))
    _AST_CACHE[cfg] = ast
    return ast


# --------------------------------------------------------------------------- units
class Unit:
    """One function under contract (or one lemma) = one goto-instrument/cbmc job.

    fn       mangled name of the function whose contract is enforced
    pre/post names of extern-"C" spec predicates; convention:
               pre(p1..pn)             (pointer params are passed dereferenced)
               post(p1..pn, ret)       value-returning function
               post(p1..pn, new1..)    for `T&` parameters the final values follow
             post=None for lemmas: ensures the bool return value is true
    replace  list of (fn, pre, post) whose calls are replaced by their contract
    """
    def __init__(self, id, fn, pre=None, post=None, replace=(), cfg='abacus', backends=('sat',), timeout=120,
                 tier='quick', cxx=None, note='', split=False, loop_contracts=None, ghost=None, extra_flags=(),
                 lemma=False, requires_extra=(), ensures_extra=(), no_canary=False, ub_only=False, unwind=None,
                 object_bits=None, defines=(), link_src=False, expect_props=(), engine='bv', prelude='', replace_raw=(), needs=(), bounded=None, native_post=None, assigns_extra=(), cut_check=None, role_binder=None, role_fn=None, ignore_desc=None, pre_consts=(), split_returns=False, post_split=(), soft=False):
        self.engine = engine
        self.ignore_desc = ignore_desc
        self.role_fn = role_fn
        self.role_binder = role_binder
        self.assigns_extra = list(assigns_extra)
        self.cut_check = cut_check
        self.native_post = native_post
        self.soft = soft            # undecided obligations of this unit are reported (NOT-PROVED, counted as not discharged) without making the check undecided: a labelled scan of the same run covers the clause
        self.post_split = tuple(post_split)     # INT units with split_returns: the conjuncts of `post`, proved separately
        self.split_returns = split_returns      # INT units: one postcondition obligation per return statement
        self.pre_consts = tuple(pre_consts)     # INT units: integer literals appended to the precondition's arguments (slice selectors)
        self.bounded = bounded
        self.needs = list(needs)
        self.prelude = prelude
        self.replace_raw = list(replace_raw)
        self.id, self.fn, self.pre, self.post = id, fn, pre, post
        self.replace = list(replace)
        self.cfg, self.backends, self.timeout, self.tier = cfg, list(backends), timeout, tier
        self.cxx, self.note, self.split = cxx, note, split
        self.loop_contracts = loop_contracts or {}
        self.ghost = ghost or {}
        self.extra_flags = list(extra_flags)
        self.lemma = lemma
        self.requires_extra, self.ensures_extra = list(requires_extra), list(ensures_extra)
        self.no_canary = no_canary
        self.ub_only = ub_only
        self.unwind = unwind
        self.object_bits = object_bits
        self.link_src = link_src
        self.expect_props = list(expect_props)


def contract_text(f, pre, post, lemma=False, requires_extra=(), ensures_extra=()):
    """__CPROVER contract clauses for extracted function record f"""
    params = f['params']
    req, ens, assigns = [], [], []
    args_old, args_pre, news = [], [], []
    for name, t in params:
        if t.ref == 'lref':
            req.append('__CPROVER_requires(__CPROVER_is_fresh(%s, sizeof(%s)))' % (name, t.c()))
            args_pre.append('*%s' % name)
            args_old.append('__CPROVER_old(*%s)' % name)
            news.append('*%s' % name)
            assigns.append('*%s' % name)
        else:
            args_pre.append(name)
            args_old.append(name)
    if pre:
        req.append('__CPROVER_requires(%s(%s))' % (pre, ', '.join(args_pre)))
    for r in requires_extra:
        req.append('__CPROVER_requires(%s)' % r)
    ret = f['ret']
    if lemma:
        ens.append('__CPROVER_ensures(__CPROVER_return_value)')
    elif post:
        a = list(args_old)
        if ret.ref == 'lref':
            # reference-returning operators (op=) return their first reference parameter
            ens.append('__CPROVER_ensures(__CPROVER_return_value == %s)' % [n for n, t in params if t.ref == 'lref'][0])
        elif ret.base != 'void':
            a.append('__CPROVER_return_value')
        a += news
        ens.append('__CPROVER_ensures(%s(%s))' % (post, ', '.join(a)))
    for e in ensures_extra:
        ens.append('__CPROVER_ensures(%s)' % e)
    if not req:
        req.append('__CPROVER_requires(1)')
    if not ens:
        ens.append('__CPROVER_ensures(1)')
    return '\n'.join(req + ens + ['__CPROVER_assigns(%s)' % ', '.join(assigns)])


def uf_contract_text(f, cname):
    """determinism abstraction: a pure function (by-value parameters only, no globals: guaranteed by the
    extraction subset) is replaced by an uninterpreted function of its arguments. Returns (decl, contract)."""
    args, ptys = [], []
    for name, t in f['params']:
        if t.ref == 'lref' or t.ptr:
            raise Undecided('UF abstraction of %s: pointer/reference parameter' % cname)
        if t.is_struct():
            args.append(name + '.v')
            ptys.append('long')
        else:
            args.append(name)
            ptys.append(t.c())
    ret = f['ret']
    if ret.ref == 'lref' or ret.ptr or ret.base == 'void':
        raise Undecided('UF abstraction of %s: return type' % cname)
    rty = 'long' if ret.is_struct() else ret.c()
    uf = '__CPROVER_uninterpreted_' + hashlib.sha1(cname.encode()).hexdigest()[:12]
    decl = '%s %s(%s);' % (rty, uf, ', '.join(ptys))
    rv = '__CPROVER_return_value.v' if ret.is_struct() else '__CPROVER_return_value'
    return decl, '__CPROVER_ensures(%s == %s(%s))\n__CPROVER_assigns()' % (rv, uf, ', '.join(args))


def harness_text(f, cname, hname, canary=True):
    lines = ['void %s(void)' % hname, '{']
    args = []
    for i, (name, t) in enumerate(f['params']):
        if t.ref == 'lref':
            lines.append('  %s *in_%d;' % (t.c(), i))
        else:
            lines.append('  %s in_%d;' % (t.c(), i))
        args.append('in_%d' % i)
    lines.append('  %s(%s);' % (cname, ', '.join(args)))
    if canary:
        lines.append('  __CPROVER_assert(0, "vf_canary: end of harness is reachable");')
    lines.append('}')
    return '\n'.join(lines)


PRELUDE = '''
'''


def emit_unit(unit, outdir):
    """extract the C program for one unit; returns dict with paths and metadata"""
    ast = get_ast(unit.cfg)
    ex = X.Extractor(ast)
    roles = {}
    if unit.role_binder:
        # loop invariants / ghost code name the function's locals by ROLE; the roles are bound to the actual names by
        # pattern matching on the AST, so that renaming a local is not a reason for exit 2 (and never for an alarm)
        roles = unit.role_binder(ast.fn_def_by_mangled.get(unit.role_fn or unit.fn)) or {}

    def bind_roles(txt):
        for k, v in roles.items():
            txt = txt.replace('{%s}' % k, str(v))
        return txt
    for key, txt in unit.loop_contracts.items():
        ex.loop_contracts[(X.cname_of(unit.fn), key)] = bind_roles(txt)
    for key, txt in unit.ghost.items():
        anchor = key[1]
        if isinstance(anchor[1], str) and anchor[1].startswith('ROLE:'):
            anchor = (anchor[0], roles[anchor[1][5:]])      # the statement ordinal itself is bound by role
        ex.ghost[(X.cname_of(key[0]), anchor)] = bind_roles(txt)
    cn = ex.require_mangled(unit.fn)
    needed = [unit.pre, unit.post] + unit.needs
    for (g, gpre, gpost) in unit.replace:
        ex.require_mangled(g)
        if not gpre.startswith('UF'):
            needed += [gpre, gpost]
        else:
            if gpost:
                needed += [gpost]
            if gpre.startswith('UF:'):
                needed += [gpre[3:]]
    for p in needed:
        if p:
            ex.require_mangled(p)
    f = ex.funcs[cn]

    def subst(txt):
        for i in range(len(f['params']), 0, -1):
            txt = txt.replace('$%d' % i, f['params'][i - 1][0])
        return txt
    req_extra = [subst(x) for x in unit.requires_extra]
    if unit.ub_only:
        # C07 domain: every fixed_t argument finite or +-NaN (every raw value but INT64_MIN), shift counts <= 63,
        # anything else unconstrained
        for name, t in f['params']:
            if t.base == 'fixed_t':
                req_extra.append('%s%sv != (-0x7FFFFFFFFFFFFFFFL - 1L)' % (name, '->' if t.ref == 'lref' else '.'))
        if f['name'] in ('operator<<', 'operator>>') and len(f['params']) == 2 and f['params'][1][1].base == 'int':
            req_extra.append('%s <= 63' % f['params'][1][0])
    ex.contracts[cn] = contract_text(f, unit.pre, unit.post, unit.lemma, req_extra, [subst(x) for x in unit.ensures_extra])
    if unit.assigns_extra:
        ex.contracts[cn] = ex.contracts[cn].replace('__CPROVER_assigns()', '__CPROVER_assigns(%s)' % ', '.join(unit.assigns_extra))
    if unit.cut_check:
        # (function, if ordinal, names that must NOT be referenced after that statement)
        cfn, iford, forbidden = unit.cut_check
        inclusive = False
        if isinstance(iford, str) and iford.startswith('ROLE:'):
            iford, inclusive = roles[iford[5:]], True       # cut BEFORE that statement: it belongs to the suffix
        ex.require_mangled(cfn)
        if forbidden == 'PARAMS':
            forbidden = [c['name'] for c in X.kids(ast.fn_def_by_mangled[cfn]) if c.get('kind') == 'ParmVarDecl']
        after = ex.names_referenced_after_if(X.cname_of(cfn), iford, inclusive)
        bad = sorted(set(forbidden) & after)
        if bad:
            raise Undecided('%s: the code after the cut point still reads %s; the factorisation argument does not apply' % (unit.id, bad))
    unit_prelude = unit.prelude() if callable(unit.prelude) else unit.prelude     # a callable is evaluated at emission time (run-time generated certificates)
    prelude = PRELUDE + unit_prelude + '\n'
    uf_abstracted = []
    for (g, gpre, gpost) in unit.replace:
        gcn = X.cname_of(g)
        if gpre.startswith('UF'):
            decl, ctxt = uf_contract_text(ex.funcs[gcn], gcn)
            prelude += decl + '\n'
            if gpost:   # ... that additionally satisfies the function's own (proved) postcondition on its domain
                names = [n_ for n_, t_ in ex.funcs[gcn]['params']]
                post_call = '%s(%s)' % (gpost, ', '.join(names + ['__CPROVER_return_value']))
                guard = '!%s(%s) || ' % (gpre[3:], ', '.join(names)) if gpre.startswith('UF:') else ''
                ctxt = '__CPROVER_ensures(%s%s)\n' % (guard, post_call) + ctxt
            ex.contracts[gcn] = ctxt
            uf_abstracted.append(ex.funcs[gcn]['qual'] + '::' + (ex.funcs[gcn]['name'] or ''))
        else:
            ex.contracts[gcn] = contract_text(ex.funcs[gcn], gpre, gpost)
    if 'vf_sqrt' in ex.externals and 'vf_sqrt' not in unit_prelude:
        prelude += 'double vf_sqrt(double x);   /* external: C library sqrt */\n'
    hname = 'vf_harness'
    text = ex.emit(extra_prelude=prelude, extra_tail=harness_text(f, cn, hname, not unit.no_canary))
    os.makedirs(outdir, exist_ok=True)
    cpath = os.path.join(outdir, 'unit.c')
    with open(cpath, 'w') as fh:
        fh.write(text)
    meta = {
        'cname': cn, 'params': [(n, t.c(), t.ref) for n, t in f['params']], 'ret': (f['ret'].c(), f['ret'].ref),
        'src': ex.fn_src.get(cn), 'functions': {c: ex.fn_src.get(c) for c in ex.funcs},
        'loops': ex.loops.get(cn, 0), 'dropped': dict(ex.dropped), 'externals': sorted(ex.externals),
        'sideeffect_args': ex.sideeffect_args, 'replaced': [X.cname_of(g) for g, _, _ in unit.replace],
        'qualname': f['qual'] + '::' + (f['name'] or ''), 'type': f['type'], 'uf_abstracted': uf_abstracted,
    }
    with open(os.path.join(outdir, 'meta.json'), 'w') as fh:
        json.dump(meta, fh, indent=1)
    return meta


# --------------------------------------------------------------------------- cbmc
import threading
_SEM = threading.BoundedSemaphore(NCPU)


def run(cmd, timeout, cwd=None, env=None, mem_gb=10):
    with _SEM:
        return _run(cmd, timeout, cwd, env, mem_gb)


def _run(cmd, timeout, cwd=None, env=None, mem_gb=10):
    def limits():
        import resource
        resource.setrlimit(resource.RLIMIT_AS, (mem_gb << 30, mem_gb << 30))
        os.setsid()
        try:
            import ctypes
            ctypes.CDLL('libc.so.6').prctl(1, 9)   # PR_SET_PDEATHSIG: die with the driver
        except Exception:
            pass
    t0 = time.time()
    try:
        p = subprocess.Popen(cmd, stdout=subprocess.PIPE, stderr=subprocess.PIPE, text=True, cwd=cwd, env=env,
                             preexec_fn=limits)
        try:
            out, err = p.communicate(timeout=timeout)
        except subprocess.TimeoutExpired:
            try:
                os.killpg(p.pid, 9)
            except ProcessLookupError:
                pass
            out, err = p.communicate()
            return None, out, err, time.time() - t0
        return p.returncode, out, err, time.time() - t0
    except OSError as e:
        return -1, '', str(e), time.time() - t0


def parse_cbmc_json(out):
    try:
        d = json.loads(out)
    except Exception:
        return None, ['unparseable cbmc output: ' + out[-500:]]
    results, msgs = [], []
    for x in d:
        if 'result' in x:
            results = x['result']
        if x.get('messageType') in ('ERROR', 'WARNING'):
            msgs.append(x.get('messageText', ''))
    return results, msgs


def is_lib_prop(name):
    return name.startswith(LIB_PREFIXES)


def prepare_unit(unit, udir):
    """goto-cc + goto-instrument; returns path of instrumented binary"""
    meta = emit_unit(unit, udir)
    cpath = os.path.join(udir, 'unit.c')
    a, b = os.path.join(udir, 'a.gb'), os.path.join(udir, 'b.gb')
    rc, out, err, dt = run(['goto-cc', '-D__CPROVER__VF', '--function', 'vf_harness', cpath, '-o', a], 120)
    if rc != 0:
        raise Undecided('%s: goto-cc failed: %s' % (unit.id, (err or out)[-2000:]))
    cmd = ['goto-instrument', '--dfcc', 'vf_harness', '--enforce-contract', meta['cname']]
    for g in meta['replaced'] + unit.replace_raw:
        cmd += ['--replace-call-with-contract', g]
    if unit.loop_contracts:
        cmd += ['--apply-loop-contracts']
    cmd += [a, b]
    rc, out, err, dt = run(cmd, 300)
    if rc != 0:
        raise Undecided('%s: goto-instrument failed: %s' % (unit.id, (err or out)[-3000:]))
    return b, meta


def cbmc_cmd(unit, b, backend, props=None, trace=False):
    cmd = ['cbmc', b, '--json-ui'] + CBMC_CHECKS + BACKENDS[backend] + unit.extra_flags
    if unit.unwind:
        cmd += ['--unwind', str(unit.unwind), '--unwinding-assertions']
    if unit.object_bits:
        cmd += ['--object-bits', str(unit.object_bits)]
    for p in (props or []):
        cmd += ['--property', p]
    if trace:
        cmd += ['--trace']
    return cmd


def list_props(unit, b):
    cmd = ['cbmc', b, '--json-ui', '--show-properties'] + CBMC_CHECKS + unit.extra_flags
    if unit.unwind:
        cmd += ['--unwind', str(unit.unwind), '--unwinding-assertions']
    rc, out, err, dt = run(cmd, 120)
    try:
        d = json.loads(out)
    except Exception:
        raise Undecided('%s: show-properties failed: %s' % (unit.id, (out or err)[-1000:]))
    props = []
    for x in d:
        if 'properties' in x:
            for p in x['properties']:
                props.append((p['name'], p.get('description', ''), p.get('sourceLocation', {})))
    return props


def solve_unit(unit, workdir, seed=0):
    """returns dict(unit, obligations=[{name, desc, status, backend, seconds, loc}], undecided=[...], meta)"""
    udir = os.path.join(workdir, re.sub(r'[^A-Za-z0-9_.-]', '_', unit.id))
    shutil.rmtree(udir, ignore_errors=True)
    t_start = time.time()
    res = {'unit': unit.id, 'obligations': [], 'undecided': [], 'errors': [], 'meta': None, 'udir': udir}
    try:
        b, meta = prepare_unit(unit, udir)
    except (Undecided, X.ExtractError) as e:
        res['errors'].append(str(e))
        return res
    res['meta'] = meta
    props = list_props(unit, b)
    if unit.ignore_desc:
        # obligations generated by a blanket CBMC flag that are NOT part of the contract (e.g. intended modular unsigned
        # negation under --unsigned-overflow-check, which is there for the sum of squares only)
        dropped = [p for p in props if re.search(unit.ignore_desc, p[1])]
        props = [p for p in props if not re.search(unit.ignore_desc, p[1])]
        res['ignored_obligations'] = [p[0] for p in dropped]
    if not props:
        res['errors'].append('%s: no properties generated (vacuous)' % unit.id)
        return res
    status = {}
    env = dict(os.environ)
    tmpd = os.path.join(udir, 'tmp')
    os.makedirs(tmpd, exist_ok=True)
    env['TMPDIR'] = tmpd
    pending = [p[0] for p in props]
    desc = {p[0]: (p[1], p[2]) for p in props}
    warnings = []

    def attempt(backend, plist, timeout):
        cmd = cbmc_cmd(unit, b, backend, plist if len(plist) < len(props) else None)
        rc, out, err, dt = run(cmd, timeout, env=env)
        if rc is None:
            return False, dt
        results, msgs = parse_cbmc_json(out)
        if 'too many addressed objects' in (out or '') and not unit.object_bits:
            unit.object_bits = 12       # CBMC's default of 8 object bits is too small for this unit: retry once
            return attempt(backend, plist, timeout)
        for m in msgs:
            if re.search(r'ignoring|no body for|unwinding', m):
                warnings.append(m)
        if results is None:
            warnings.append('%s/%s: %s' % (unit.id, backend, msgs[:1]))
            return False, dt
        got = False
        decided = [r for r in results if r['property'] in plist and r['status'] in ('SUCCESS', 'FAILURE')]
        for r in decided:
            # one solver process decided all of them: its wall time is shared out evenly for the report
            status[r['property']] = (r['status'], backend, dt / max(1, len(decided)))
            got = True
        return got, dt

    if not unit.split:
        for be in unit.backends:
            todo = [p for p in pending if p not in status]
            if not todo:
                break
            attempt(be, todo, unit.timeout)
    todo = [p for p in pending if p not in status]
    if todo:
        # one process per obligation, portfolio in order (DESIGN 3.3)
        def one(p):
            for be in unit.backends:
                cmd = cbmc_cmd(unit, b, be, [p])
                e2 = dict(env)
                e2['TMPDIR'] = tempfile.mkdtemp(dir=tmpd)
                rc, out, err, dt = run(cmd, unit.timeout, env=e2)
                if 'too many addressed objects' in (out or '') and not unit.object_bits:
                    unit.object_bits = 12
                    rc, out, err, dt = run(cbmc_cmd(unit, b, be, [p]), unit.timeout, env=e2)
                shutil.rmtree(e2['TMPDIR'], ignore_errors=True)
                if rc is None:
                    continue
                results, msgs = parse_cbmc_json(out)
                for r in results or []:
                    if r['property'] == p and r['status'] in ('SUCCESS', 'FAILURE'):
                        return p, (r['status'], be, dt)
            return p, None
        with concurrent.futures.ThreadPoolExecutor(max_workers=NCPU) as tp:
            for p, st in tp.map(one, todo):
                if st:
                    status[p] = st
    for p in pending:
        d, loc = desc[p]
        if p in status:
            st, be, dt = status[p]
            res['obligations'].append({'name': p, 'desc': d, 'status': st, 'backend': be, 'seconds': round(dt, 2),
                                       'line': loc.get('line'), 'function': loc.get('function'), 'lib': is_lib_prop(p)})
        else:
            res['undecided'].append({'name': p, 'desc': d})
    res['warnings'] = warnings
    res['seconds'] = round(time.time() - t_start, 2)
    res['binary'] = b
    return res


def get_trace(unit, b, prop, backend, timeout=300):
    """re-run one failed property with --trace; returns dict in_k -> value json"""
    rc, out, err, dt = run(cbmc_cmd(unit, b, backend, [prop], trace=True), timeout)
    if rc is None:
        return None, 'trace run timed out'
    results, msgs = parse_cbmc_json(out)
    for r in results or []:
        if r['property'] == prop and r['status'] == 'FAILURE':
            inputs = {}
            for s in r.get('trace', []):
                if s.get('stepType') == 'assignment' and re.match(r'^in_\d+$', s.get('lhs', '')) and \
                        s.get('sourceLocation', {}).get('function') == 'vf_harness':
                    inputs.setdefault(s['lhs'], s.get('value'))
                m = re.match(r'^(in_\d+)', s.get('lhs', ''))
            # pointer inputs: value of the pointed-to object at the call = assignments to dynamic objects;
            # recover from the callee's first read instead
            return {'inputs': inputs, 'raw_tail': [
                {'lhs': s.get('lhs'), 'value': (s.get('value') or {}).get('data'), 'fn': s.get('sourceLocation', {}).get('function'),
                 'line': s.get('sourceLocation', {}).get('line')}
                for s in r.get('trace', []) if s.get('stepType') == 'assignment' and not s.get('hidden')][:80]}, None
    return None, 'no failing trace returned'
