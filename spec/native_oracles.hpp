// Native-only oracles (long double libm). Included by replay drivers and stand-ins, NOT by spec/all.cc: these
// predicates are not part of any contract; they let a replay decide whether a solver counterexample to a
// structural obligation (e.g. "uhi*uhi wraps") is also a failing input of the property's accuracy clause.
#pragma once
#include <cmath>
#include <fixedmath/fixed_math.hpp>
namespace vfspec {
inline bool native_hypot_ok(fixedmath::fixed_t a, fixedmath::fixed_t b, fixedmath::fixed_t h)
  {
  long double t = sqrtl((long double)a.v * a.v + (long double)b.v * b.v), e = fabsl((long double)h.v - t);
  bool small = labs(a.v) < (1l << 30) && labs(b.v) < (1l << 30);
  return h.v >= 0 && !fixedmath::isnan(h) && (small ? e <= 2.0L : e <= 1.5e-4L * t);
  }
// accuracy clause of atan_index_aprox (C19), the very predicate the certificate of native/c19_atan_cert.cc encodes as intervals
inline bool native_atan_index_ok(fixedmath::fixed_t x, fixedmath::fixed_t r)
  {
  long double const t = atanl((long double)x.v / 65536) * 128 / 3.14159265358979323846264338327950288L;
  return fabsl((long double)r.v / 65536 - t) <= 1.25L;
  }
}
