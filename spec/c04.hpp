#pragma once
#include "common.hpp"
// C04: integer n -> fixed_t is exactly n when |n| <= 2^31-1 and NaN otherwise; finite fixed_t x -> T is
// the integer k with k <= x < k+1 when representable in T and 0 otherwise; round trip.
namespace vfspec {
using namespace fixedmath;
template<typename T> constexpr bool post_i2f_t(T n, fixed_t r)
  { wide m = wide(n); return (m >= -wide(2147483647) && m <= wide(2147483647)) ? wide(r.v) == m * 65536 : vf_isnan(r); }
template<typename T> constexpr bool post_f2i_t(fixed_t x, T ret)
  {
  wide xv = wide(x.v);
  wide k = xv >= 0 ? xv / 65536 : -((-xv + 65535) / 65536);   // floor(x.v / 65536)
  bool rep = k >= wide(std::numeric_limits<T>::min()) && k <= wide(std::numeric_limits<T>::max());
  return rep ? wide(ret) == k : ret == T(0);
  }
template<typename T> constexpr bool lem_roundtrip_t(T n)
  { wide m = wide(n); return !(m >= -wide(2147483647) && m <= wide(2147483647)) || fixed_to_integral<T>(integral_to_fixed<T>(n)) == n; }
template<typename T> constexpr void inst_c04_t(T n, fixed_t x)
  { (void)fixed_t(n); (void)arithmetic_to_fixed<T,void>(n); (void)detail::promote_to_fixed(n); (void)static_cast<T>(x); (void)fixed_to_arithmetic<T>(x); }
extern "C" {
constexpr bool pre_finite1(fixed_t x) { return vf_finite(x); }
#define VF_C04(T, tag) \
  constexpr bool pre_i2f_##tag(T) { return true; } \
  constexpr bool post_i2f_##tag(T n, fixed_t r) { return post_i2f_t<T>(n, r); } \
  constexpr bool post_f2i_##tag(fixed_t x, T ret) { return post_f2i_t<T>(x, ret); } \
  constexpr bool lem_c04_roundtrip_##tag(T n) { return lem_roundtrip_t<T>(n); } \
  inline void inst_c04_##tag(T n, fixed_t x) { inst_c04_t<T>(n, x); }
VF_C04(int8_t, a) VF_C04(int16_t, s) VF_C04(int32_t, i) VF_C04(int64_t, l)
VF_C04(uint8_t, h) VF_C04(uint16_t, t) VF_C04(uint32_t, j) VF_C04(uint64_t, m)
#undef VF_C04
}
}
