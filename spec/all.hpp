// Every contract / lemma header. spec/all.cc is the translation unit clang dumps; the
// native replay drivers and stand-ins include this header too, so the oracle evaluated
// natively is the same text the verifier used.
#pragma once
#include "common.hpp"
#include "c01.hpp"
#include "c02.hpp"
#include "c03.hpp"
#include "c04.hpp"
#include "c05.hpp"
#include "c06.hpp"
#include "c09.hpp"
#include "c10.hpp"
#include "c11.hpp"
#include "c12.hpp"
#include "c13.hpp"
#include "c14.hpp"
#include "c15.hpp"
#include "c16.hpp"
#include "c17.hpp"
#include "c18.hpp"
#include "c19.hpp"
#include "c20.hpp"
