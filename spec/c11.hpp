#pragma once
#include "common.hpp"
#include "c10.hpp"
// C11: |x| < 2^31: |atan(x) - atan x| <= 5e-5, atan(-x) == -atan(x), |atan(x)| <= library pi/2, monotone up to 2 ulp.
// atan2(y,x): within 8e-5 of the angle in (-pi, pi], sign follows y, exact values on the axes, atan2(0,0) NaN.
namespace vfspec {
using namespace fixedmath;
extern "C" {
// series kernel atan<16> on its call domain [0, 7/16]
constexpr bool pre_atan_k(long z) { return z >= 0 && z <= 32768; }      // call sites need [0, 28672]
constexpr bool post_atan_k(long z, long r) { return r >= 0 && r <= z && (z > 26887 || r <= 25515) && (z != 0 || r == 0); }
// thorough tier: the series kernel against the exact polynomial z - z^3/3 + z^5/5 - z^7/7 + z^9/9 - z^11/11 of the property's source
// comment.  vf_atan_poly_scaled(z) = 3465 * 2^60 * 65536 * P(z / 65536) evaluated in 128-bit integers; every `>> 32` truncates by less
// than one unit of 2^-60 ulp, so the value is within 3465 * 5 units (2^-57 ulp) of the exact polynomial.  post_atan_poly: the kernel is
// within 1.25 ulp of it (measured maximum 1.02).  With the alternating-series remainder z^13/13 < 2^-19.2 on [0, 7/16] (textbook
// lemma) this bounds the kernel's distance from the real arctangent by 1.25 ulp + 0.11 ulp without any libm oracle.
constexpr wide vf_atan_poly_scaled(long z)
  { wide const Z = z, z2 = Z * Z, a1 = Z << 60, a3 = (a1 * z2) >> 32, a5 = (a3 * z2) >> 32, a7 = (a5 * z2) >> 32, a9 = (a7 * z2) >> 32, a11 = (a9 * z2) >> 32;
    return 3465 * a1 - 1155 * a3 + 693 * a5 - 495 * a7 + 385 * a9 - 315 * a11; }
constexpr bool post_atan_poly(long z, long r)
  { wide d = (wide(3465) << 60) * wide(r) - vf_atan_poly_scaled(z); if( d < 0 ) d = -d; return 4 * d <= 5 * (wide(3465) << 60); }
// atan_sum<c>: atan(c) + atan((x - c) / (1 + x*c)) for x >= c; the reduced argument stays inside the kernel domain
constexpr bool pre_atan_sum1(long x) { return x >= 28672 && x < 45056; }
constexpr bool pre_atan_sum2(long x) { return x >= 45056 && x < 77824; }
constexpr bool pre_atan_sum3(long x) { return x >= 77824 && x < 159744; }
constexpr bool pre_atan_sum4(long x) { return x >= 159744 && x < (1l << 34); }
constexpr bool post_atan_sum1(long, long r) { return r >= 27028 && r <= 27028 + 12600; }
constexpr bool post_atan_sum2(long, long r) { return r >= 39472 && r <= 39472 + 18100; }
constexpr bool post_atan_sum3(long, long r) { return r >= 57076 && r <= 57076 + 21100; }
constexpr bool post_atan_sum4(long, long r) { return r >= 77429 && r <= 102944; }
constexpr bool pre_mul16(long x, long y) { return x >= 0 && y >= 0 && x < (1l << 34) && y < (1l << 18); }
// atan: bounded by the library's pi/2 constant, sign of the argument, zero at zero (all finite arguments, both NaNs)
constexpr bool post_atan(fixed_t x, fixed_t r)
  { return r.v >= -PIDIV2 && r.v <= PIDIV2 && (x.v != 0 || r.v == 0) && (x.v <= 0 || r.v >= 0) && (x.v >= 0 || r.v <= 0) && (x.v < (1l << 34) || r.v == PIDIV2); }
constexpr bool lem_c11_odd(fixed_t x) { return atan(-x) == -atan(x); }
// atan2 factors through the fixed division and atan: for x != 0 it is exactly atan(y / x), plus or minus the library's pi in the left
// half-plane.  With this lemma the accuracy clause of atan2 reduces to that of operator/ (C03) and of atan; a change of the quadrant
// offset, of the operand order of the quotient or of the branch structure fails here for all pairs, not only on the sampled ones.
constexpr bool lem_c11_atan2_factors(fixed_t y, fixed_t x)
  {
  if( x.v == 0 ) return true;
  fixed_t const a = atan(y / x), r = atan2(y, x);
  return x.v > 0 ? r.v == a.v : y.v >= 0 ? r.v == (a + phi).v : r.v == (a - phi).v;
  }
// atan2: quadrant / axis / NaN clauses
constexpr bool pre_c11_atan2(fixed_t y, fixed_t x) { return y.v > -(1l << 47) && y.v < (1l << 47) && x.v > -(1l << 47) && x.v < (1l << 47); }
constexpr bool post_atan2(fixed_t y, fixed_t x, fixed_t r)
  {
  if( x.v == 0 ) return y.v > 0 ? r.v == PIDIV2 : y.v < 0 ? r.v == -PIDIV2 : vf_isnan(r);
  if( y.v == 0 ) return x.v > 0 ? r.v == 0 : r.v == PHI;
  if( vf_isnan(r) ) return false;
  if( y.v > 0 ) return r.v >= 0 && r.v <= PHI && (x.v < 0 ? r.v >= PHI - PIDIV2 : r.v <= PIDIV2);
  return r.v <= 0 && r.v >= -PHI && (x.v < 0 ? r.v <= -(PHI - PIDIV2) : r.v >= -PIDIV2);
  }
}
inline void inst_c11(fixed_t x, fixed_t y) { (void)atan(x); (void)atan2(y, x); }
}
