#pragma once
#include "common.hpp"
#include "c10.hpp"
// C20: angle_to_radians(d) within 2 ulp of d*pi/180 for every integer d in [0,360] whatever type carries d, NaN outside.
// For |d| <= 360 sin_angle/cos_angle/tan_angle: C09/C10 bounds widened (stand-in), same result for every argument type.
namespace vfspec {
using namespace fixedmath;
// pi * 65536 = 205887.416172..., as the rational 205887416172 / 10^6 (truncation error < 1e-6 raw units per degree)
template<typename T> constexpr bool post_a2r_t(T d, fixed_t r)
  {
  wide m = wide(d);
  if( m < 0 || m > 360 ) return vf_isnan(r);
  if( vf_isnan(r) ) return false;
  wide lhs = wide(r.v) * 180 * 1000000 - m * wide(205887416172ll);
  wide tol = wide(2) * 180 * 1000000 + m;
  return lhs >= -tol && lhs <= tol;
  }
// the radian argument handed to sin/cos/tan: d * phi / 180 evaluated in the argument type
template<typename T> constexpr fixed_t rad_arg_t(T angle) { return angle * phi / 180; }
template<typename T> constexpr bool lem_same_arg_t(T d) { return rad_arg_t<T>(d) == rad_arg_t<fixed_t>(fixed_t(d)); }
template<typename T> inline void inst_c20_t(T d) { (void)angle_to_radians(d); (void)sin_angle(d); (void)cos_angle(d); (void)tan_angle(d); }
extern "C" {
#define VF_C20(T, tag) \
  constexpr bool post_a2r_##tag(T d, fixed_t r) { return post_a2r_t<T>(d, r); } \
  constexpr bool pre_c20_##tag(T d) { return wide(d) >= -360 && wide(d) <= 360; } \
  constexpr bool lem_c20_same_arg_##tag(T d) { return lem_same_arg_t<T>(d); } \
  constexpr bool lem_c20_sin_is_sin_of_arg_##tag(T d) { return sin_angle(d) == sin(rad_arg_t<T>(d)) && cos_angle(d) == cos(rad_arg_t<T>(d)) && tan_angle(d) == tan(rad_arg_t<T>(d)); } \
  inline void inst_c20_##tag(T d) { inst_c20_t<T>(d); }
VF_C20(int8_t, a) VF_C20(int16_t, s) VF_C20(int32_t, i) VF_C20(int64_t, l)
VF_C20(uint8_t, h) VF_C20(uint16_t, t) VF_C20(uint32_t, j) VF_C20(uint64_t, m)
#undef VF_C20
constexpr bool pre_c20_f(float d) { return d >= -360.0f && d <= 360.0f && float(int(d)) == d; }     // float carrying an integer d
constexpr bool lem_c20_same_arg_f(float d) { return rad_arg_t<float>(d) == rad_arg_t<fixed_t>(fixed_t(int(d))); }
constexpr bool lem_c20_sin_is_sin_of_arg_f(float d) { return sin_angle(d) == sin(rad_arg_t<float>(d)) && cos_angle(d) == cos(rad_arg_t<float>(d)) && tan_angle(d) == tan(rad_arg_t<float>(d)); }
constexpr bool pre_c20_x(fixed_t d) { return d.v >= -360 * 65536 && d.v <= 360 * 65536 && d.v % 65536 == 0; }
constexpr bool lem_c20_sin_is_sin_of_arg_x(fixed_t d) { return sin_angle(d) == sin(rad_arg_t<fixed_t>(d)) && cos_angle(d) == cos(rad_arg_t<fixed_t>(d)) && tan_angle(d) == tan(rad_arg_t<fixed_t>(d)); }
inline void inst_c20_f(float f, fixed_t x) { (void)sin_angle(f); (void)cos_angle(f); (void)tan_angle(f); (void)sin_angle(x); (void)cos_angle(x); (void)tan_angle(x); }
}
}
namespace vfspec { inline void inst_c07(fixedmath::fixed_t a, fixedmath::fixed_t b) { (void)fixedmath::hypot_aprox(a, b); (void)fixedmath::sqrt_aprox(a); } }
namespace vfspec { inline void inst_c07b(fixedmath::fixed_t a) { (void)fixedmath::atan_aprox(a); (void)fixedmath::atan_index_aprox(a); } }
