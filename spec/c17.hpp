#pragma once
#include "common.hpp"
// C17: algebraic laws of exact arithmetic where defined (lemmas over the REAL operators).
namespace vfspec {
using namespace fixedmath;
// a*n is a added to itself n times: a*0 == 0, a*1 == a and a*(n+1) == a*n + a (induction step), for every integral type
template<typename T> constexpr bool lem_mul_step_t(fixed_t a, T n)
  {
  if( n == std::numeric_limits<T>::max() ) return true;
  fixed_t p = a * n, q = a * T(n + 1);
  if( isnan(p) || isnan(q) ) return true;
  fixed_t s = p + a;
  return isnan(s) || s == q;
  }
template<typename T> constexpr bool lem_mul_div_t(fixed_t a, T n)
  { if( n == 0 ) return true; fixed_t p = a * n; if( isnan(p) ) return true; fixed_t d = p / n; return isnan(d) || d == a; }
// the same laws through the compound-assignment forms (operation sequences x *= n; x /= n and x += b; x -= b)
template<typename T> constexpr bool lem_mul_div_seq_t(fixed_t a, T n)
  { if( n == 0 ) return true; fixed_t x = a; x *= n; if( isnan(x) ) return true; x /= n; return isnan(x) || x == a; }
extern "C" {
constexpr bool lem_c17_add_sub_seq(fixed_t a, fixed_t b) { fixed_t x = a; x += b; if( isnan(x) ) return true; x -= b; return isnan(x) || x == a; }
#define VF_C17(T, tag) \
  constexpr bool lem_c17_mul_div_seq_##tag(fixed_t a, T n) { return lem_mul_div_seq_t<T>(a, n); } \
  constexpr bool lem_c17_mul_step_##tag(fixed_t a, T n) { return lem_mul_step_t<T>(a, n); } \
  constexpr bool lem_c17_mul_div_##tag(fixed_t a, T n) { return lem_mul_div_t<T>(a, n); }
VF_C17(int8_t, a) VF_C17(int16_t, s) VF_C17(int32_t, i) VF_C17(int64_t, l)
VF_C17(uint8_t, h) VF_C17(uint16_t, t) VF_C17(uint32_t, j) VF_C17(uint64_t, m)
#undef VF_C17
constexpr bool pre_c17_3(fixed_t a, fixed_t b, fixed_t c) { return vf_finite(a) && vf_finite(b) && vf_finite(c); }
constexpr bool pre_c17_small(fixed_t a) { return a.v > -(1ll<<47) && a.v < (1ll<<47); }     // |a| < 2^31
constexpr bool pre_c17_n(fixed_t a, int64_t) { return vf_finite(a); }
constexpr bool lem_c17_add_comm(fixed_t a, fixed_t b) { return (a + b) == (b + a); }
constexpr bool lem_c17_mul_comm(fixed_t a, fixed_t b) { return (a * b) == (b * a); }
constexpr bool lem_c17_sub_neg(fixed_t a, fixed_t b) { return (a - b) == (a + (-b)); }
constexpr bool lem_c17_sub_self(fixed_t a, fixed_t) { return (a - a) == as_fixed(0); }
constexpr bool lem_c17_mul_one(fixed_t a) { return a * 1_fix == a && 1_fix * a == a && a * 1 == a && 1 * a == a; }
constexpr bool lem_c17_mul_zero(fixed_t a) { return a * 0_fix == 0_fix && 0_fix * a == 0_fix && a * 0 == 0_fix && 0 * a == 0_fix; }
constexpr bool lem_c17_div_one(fixed_t a) { return a / 1_fix == a && a / 1 == a; }
constexpr bool lem_c17_div_self(fixed_t a) { return a.v == 0 || a / a == 1_fix; }
// whenever no intermediate result is NaN:
constexpr bool lem_c17_add_sub(fixed_t a, fixed_t b)
  { fixed_t s = a + b; if( isnan(s) ) return true; fixed_t d = s - b; return isnan(d) || d == a; }
constexpr bool lem_c17_assoc(fixed_t a, fixed_t b, fixed_t c)
  {
  fixed_t ab = a + b, bc = b + c;
  if( isnan(ab) || isnan(bc) ) return true;
  fixed_t l = ab + c, r = a + bc;
  return isnan(l) || isnan(r) || l == r;
  }
constexpr bool lem_c17_add_mono(fixed_t a, fixed_t b, fixed_t c)
  { if( !(a < b) ) return true; fixed_t l = a + c, r = b + c; return isnan(l) || isnan(r) || l <= r; }
}
}
