#pragma once
#include "common.hpp"
// C01: for finite a, b: a+b and a-b (and += / -=) equal the exact mathematical result when it
// lies in [lowest(), max()], and satisfy isnan() otherwise.
namespace vfspec {
extern "C" {
constexpr bool pre_c01(fixed_t a, fixed_t b) { return vf_finite(a) && vf_finite(b); }
constexpr bool post_add(fixed_t a, fixed_t b, fixed_t r)
  { wide e = wide(a.v) + wide(b.v); return (e >= -wide(MAXV) && e <= wide(MAXV)) ? wide(r.v) == e : vf_isnan(r); }
constexpr bool post_sub(fixed_t a, fixed_t b, fixed_t r)
  { wide e = wide(a.v) - wide(b.v); return (e >= -wide(MAXV) && e <= wide(MAXV)) ? wide(r.v) == e : vf_isnan(r); }
}
// instantiate the operator templates the property quantifies over
inline void inst_c01(fixed_t a, fixed_t b) { (void)(a + b); (void)(a - b); a += b; a -= b; }
}
