#pragma once
#include "common.hpp"
#include "c02.hpp"
#include "c03.hpp"
// C16: for finite a and every t of an integral type or float with fixed_t(t) not NaN: a op t and t op a equal the
// same operation on a and fixed_t(t) (fixed*integer and fixed/integer use the integer exactly); with a double
// operand the result is the IEEE double result on double(a) and the operand in the written order; a op= t leaves
// a equal to a op t.   (a op= double does not compile in the library and is not part of the domain.)
namespace vfspec {
using namespace fixedmath;
template<typename T> constexpr bool pre_c16_t(fixed_t a, T t) { return vf_finite(a) && !vf_isnan(fixed_t(t)); }
// op codes: 0 +, 1 -, 2 *, 3 /
template<int op, typename L, typename R> constexpr auto apply(L l, R r)
  { if constexpr (op == 0) return l + r; else if constexpr (op == 1) return l - r; else if constexpr (op == 2) return l * r; else return l / r; }
template<int op, typename T> constexpr fixed_t apply_assign(fixed_t a, T t)
  { if constexpr (op == 0) a += t; else if constexpr (op == 1) a -= t; else if constexpr (op == 2) a *= t; else a /= t; return a; }
// a op t == a op fixed_t(t)
template<int op, typename T> constexpr bool lem_lr(fixed_t a, T t) { return apply<op>(a, t) == apply<op>(a, fixed_t(t)); }
// t op a == fixed_t(t) op a
template<int op, typename T> constexpr bool lem_rl(fixed_t a, T t) { return apply<op>(t, a) == apply<op>(fixed_t(t), a); }
// a op= t leaves a == a op t
template<int op, typename T> constexpr bool lem_as(fixed_t a, T t) { return apply_assign<op>(a, t) == apply<op>(a, t); }
// integer scalars: a * n and n * a are the exact product (C02), a / n the exact truncated quotient (C03)
template<typename T> constexpr bool lem_muls(fixed_t a, T n) { return post_muls_t<T>(a, n, a * n); }
template<typename T> constexpr bool lem_mulc(fixed_t a, T n) { return (n * a) == (a * n); }
template<typename T> constexpr bool lem_divs(fixed_t a, T n) { return post_divs_mul_t<T>(a, n, a / n); }
// double: bit-identical IEEE result in the written operand order (any NaN equals any NaN)
constexpr bool same_double(double x, double y)
  { return (x != x && y != y) || (x == y && (x != 0.0 || 1.0 / x == 1.0 / y)); }   // +0 and -0 differ in 1/x
template<int op> constexpr bool lem_dlr(fixed_t a, double d) { return same_double(apply<op>(a, d), apply<op>(static_cast<double>(a), d)); }
template<int op> constexpr bool lem_drl(fixed_t a, double d) { return same_double(apply<op>(d, a), apply<op>(d, static_cast<double>(a))); }
extern "C" {
constexpr bool pre_c16_d(fixed_t a, double) { return vf_finite(a); }
#define VF_C16_OPS(T, tag, OPN, op) \
  constexpr bool lem_c16_lr_##OPN##_##tag(fixed_t a, T t) { return lem_lr<op, T>(a, t); } \
  constexpr bool lem_c16_rl_##OPN##_##tag(fixed_t a, T t) { return lem_rl<op, T>(a, t); } \
  constexpr bool lem_c16_as_##OPN##_##tag(fixed_t a, T t) { return lem_as<op, T>(a, t); }
#define VF_C16_INT(T, tag) \
  constexpr bool pre_c16_##tag(fixed_t a, T t) { return pre_c16_t<T>(a, t); } \
  VF_C16_OPS(T, tag, add, 0) VF_C16_OPS(T, tag, sub, 1) \
  constexpr bool lem_c16_muls_##tag(fixed_t a, T t) { return lem_muls<T>(a, t); } \
  constexpr bool lem_c16_mulc_##tag(fixed_t a, T t) { return lem_mulc<T>(a, t); } \
  constexpr bool lem_c16_divs_##tag(fixed_t a, T t) { return lem_divs<T>(a, t); } \
  constexpr bool lem_c16_as_mul_##tag(fixed_t a, T t) { return lem_as<2, T>(a, t); } \
  constexpr bool lem_c16_as_div_##tag(fixed_t a, T t) { return lem_as<3, T>(a, t); } \
  constexpr bool lem_c16_rl_div_##tag(fixed_t a, T t) { return lem_rl<3, T>(a, t); }
VF_C16_INT(int8_t, a) VF_C16_INT(int16_t, s) VF_C16_INT(int32_t, i) VF_C16_INT(int64_t, l)
VF_C16_INT(uint8_t, h) VF_C16_INT(uint16_t, t) VF_C16_INT(uint32_t, j) VF_C16_INT(uint64_t, m)
constexpr bool pre_c16_f(fixed_t a, float t) { return pre_c16_t<float>(a, t); }
VF_C16_OPS(float, f, add, 0) VF_C16_OPS(float, f, sub, 1) VF_C16_OPS(float, f, mul, 2) VF_C16_OPS(float, f, div, 3)
#define VF_C16_D(OPN, op) \
  constexpr bool lem_c16_dlr_##OPN(fixed_t a, double d) { return lem_dlr<op>(a, d); } \
  constexpr bool lem_c16_drl_##OPN(fixed_t a, double d) { return lem_drl<op>(a, d); }
VF_C16_D(add, 0) VF_C16_D(sub, 1) VF_C16_D(mul, 2) VF_C16_D(div, 3)
#undef VF_C16_D
#undef VF_C16_INT
#undef VF_C16_OPS
}
}
