#pragma once
#include "common.hpp"
// C02: for finite a, b: a*b is NaN or within one ulp (either direction) of the exact product; not NaN when the
// exact product of the raw values fits in int64; NaN when the exact product is outside [lowest(), max()].
// fixed x integer (any integral type, either order): exact product when in range, NaN otherwise.
namespace vfspec {
using namespace fixedmath;
template<typename T> constexpr bool post_muls_t(fixed_t a, T n, fixed_t r)
  { wide q = wide(a.v) * wide(n); return (q >= -wide(MAXV) && q <= wide(MAXV)) ? wide(r.v) == q : vf_isnan(r); }
template<typename T> inline void inst_c02_t(fixed_t a, T n) { (void)(a * n); (void)(n * a); a *= n; }
extern "C" {
constexpr bool post_mul(fixed_t a, fixed_t b, fixed_t r)
  {
  wide p = wide(a.v) * wide(b.v);                    // |p| < 2^126
  wide lim = wide(MAXV) * 65536;
  if( p > lim || p < -lim ) return vf_isnan(r);      // exact product outside [lowest(), max()]
  bool fits64 = p >= -(wide(1) << 63) && p < (wide(1) << 63);
  if( vf_isnan(r) ) return !fits64;
  wide d = wide(r.v) * 65536 - p;
  return d > -65536 && d < 65536;
  }
#define VF_C02(T, tag) \
  constexpr bool pre_muls_##tag(fixed_t a, T) { return vf_finite(a); } \
  constexpr bool pre_mulsr_##tag(T, fixed_t a) { return vf_finite(a); } \
  constexpr bool post_muls_##tag(fixed_t a, T n, fixed_t r) { return post_muls_t<T>(a, n, r); } \
  constexpr bool post_mulsr_##tag(T n, fixed_t a, fixed_t r) { return post_muls_t<T>(a, n, r); } \
  inline void inst_c02_##tag(fixed_t a, T n) { inst_c02_t<T>(a, n); }
VF_C02(int8_t, a) VF_C02(int16_t, s) VF_C02(int32_t, i) VF_C02(int64_t, l)
VF_C02(uint8_t, h) VF_C02(uint16_t, t) VF_C02(uint32_t, j) VF_C02(uint64_t, m)
#undef VF_C02
inline void inst_c02(fixed_t a, fixed_t b) { (void)(a * b); a *= b; }
}
}
