#pragma once
#include "common.hpp"
// C06: comparison operators order values as their raw integers (NaN above, -NaN below every finite
// value); isnan true exactly for the two sentinels; unary minus and abs exact on finite values.
namespace vfspec {
using namespace fixedmath;
extern "C" {
constexpr bool pre_any2(fixed_t, fixed_t) { return true; }
constexpr bool post_eq(fixed_t a, fixed_t b, bool r) { return r == (wide(a.v) == wide(b.v)); }
constexpr bool post_ne(fixed_t a, fixed_t b, bool r) { return r == (wide(a.v) != wide(b.v)); }
constexpr bool post_lt(fixed_t a, fixed_t b, bool r) { return r == (wide(a.v) <  wide(b.v)); }
constexpr bool post_le(fixed_t a, fixed_t b, bool r) { return r == (wide(a.v) <= wide(b.v)); }
constexpr bool post_gt(fixed_t a, fixed_t b, bool r) { return r == (wide(a.v) >  wide(b.v)); }
constexpr bool post_ge(fixed_t a, fixed_t b, bool r) { return r == (wide(a.v) >= wide(b.v)); }
// the property's domain for isnan/neg/abs: all finite values and both NaNs
constexpr bool pre_valid1(fixed_t x) { return vf_valid(x); }
constexpr bool post_isnan(fixed_t x, bool r) { return r == vf_isnan(x); }
constexpr bool post_neg(fixed_t x, fixed_t r) { return wide(r.v) == -wide(x.v) && (!vf_finite(x) || vf_finite(r)); }
constexpr bool post_abs(fixed_t x, fixed_t r)
  { return wide(r.v) == (x.v < 0 ? -wide(x.v) : wide(x.v)) && r.v >= 0 && (!vf_finite(x) || vf_finite(r)); }
// lemmas over the real operators
constexpr bool lem_c06_nan_order(fixed_t x)
  { return !vf_finite(x) || ( x < quiet_NaN_result() && -quiet_NaN_result() < x
                              && !(x >= quiet_NaN_result()) && !(x <= -quiet_NaN_result())
                              && x != quiet_NaN_result() && x != -quiet_NaN_result() ); }
constexpr bool lem_c06_isnan_sentinels(fixed_t x)
  { return isnan(quiet_NaN_result()) && isnan(-quiet_NaN_result()) && (!vf_finite(x) || !isnan(x)); }
constexpr bool lem_c06_negneg(fixed_t x) { return -(-x) == x; }
constexpr bool lem_c06_absneg(fixed_t x) { return abs(-x) == abs(x) && abs(x) >= as_fixed(0); }
constexpr bool lem_c06_trichotomy(fixed_t a, fixed_t b)
  { return int(a < b) + int(a == b) + int(a > b) == 1 && (a <= b) == !(a > b) && (a >= b) == !(a < b) && (a != b) == !(a == b); }
constexpr bool lem_c06_transitive(fixed_t a, fixed_t b, fixed_t c)
  { return (!(a < b && b < c) || a < c) && (!(a <= b && b <= c) || a <= c); }
}
}
namespace vfspec { inline void inst_c06(fixed_t a, fixed_t b) { (void)(a==b); (void)(a!=b); (void)(a<b); (void)(a<=b); (void)(a>b); (void)(a>=b); (void)isnan(a); (void)(-a); (void)abs(a); } }
