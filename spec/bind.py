"""
spec/bind.py -- which function of /repo carries which contract (DESIGN.md 3.2).

Functions are named by their Itanium mangled name (stable under any edit of a body; a
changed signature makes the unit unbound -> exit 2, never a verdict). Contract predicates
are the extern-"C" functions of spec/*.hpp.
"""
from vfx.core import Unit
from vfx import native as _native
from vfx import core
import os

FX = 'N9fixedmath7fixed_tE'   # mangled fixedmath::fixed_t

# ----------------------------------------------------------------------------- names
ADDI = '_ZN9fixedmath6detail15fixed_additioniENS_7fixed_tES1_'
SUBI = '_ZN9fixedmath6detail16fixed_substractiENS_7fixed_tES1_'
OP_ADD_FF = '_ZN9fixedmathplINS_7fixed_tES1_vEEDaT_T0_'
OP_SUB_FF = '_ZN9fixedmathmiINS_7fixed_tES1_vEEDaT_T0_'
OP_ADDA_F = '_ZN9fixedmathpLINS_7fixed_tEvEERS1_S2_T_'
OP_SUBA_F = '_ZN9fixedmathmIINS_7fixed_tEvEERS1_S2_T_'

PROPS = {}
_UNITS = {}
_EXTRAS = {}


def units(pid):
    if pid == 'C08' and not _UNITS.get('C08_dyn_done'):
        _c08_dynamic()
    return _UNITS.get(pid, [])


def extras(pid, tier):
    return [f for (f, t) in _EXTRAS.get(pid, []) if tier == 'thorough' or t == 'quick']


def prop(pid, level, explanation, **kw):
    PROPS[pid] = dict(level=level, explanation=explanation, **kw)
    _UNITS.setdefault(pid, [])
    _EXTRAS.setdefault(pid, [])


def E(pid, fn, tier='quick'):
    _EXTRAS[pid].append((fn, tier))


def U(pid, *a, **kw):
    u = Unit(*a, **kw)
    _UNITS[pid].append(u)
    return u


# ----------------------------------------------------------------------------- C01
prop('C01', 'proof',
     'Both kernels (fixed_additioni, fixed_substracti) are verified against the exact 128-bit sum/difference '
     '(exact in [lowest,max], NaN otherwise) for all 2^128 finite operand pairs, together with every '
     'undefined-behaviour obligation of their bodies; operator+, operator-, operator+= and operator-= on '
     '(fixed_t, fixed_t) are then verified against the same postcondition with the kernel call replaced by the '
     'kernel contract (forwarding layers inlined). A UB-free deterministic body has one result under every '
     'conforming compilation, which is the source-level content of the "however compiled" sentence.',
     assumptions=['GCC/Clang at -O0..-O3 implement ISO C++ faithfully for programs without undefined behaviour '
                  '(the inlined/out-of-line and optimisation-level clause is reduced to UB-freedom, not tested per binary)'])
U('C01', 'c01.add.kernel', ADDI, 'pre_c01', 'post_add', cxx='fixedmath::detail::fixed_additioni($1,$2)')
U('C01', 'c01.sub.kernel', SUBI, 'pre_c01', 'post_sub', cxx='fixedmath::detail::fixed_substracti($1,$2)')
U('C01', 'c01.add.op', OP_ADD_FF, 'pre_c01', 'post_add', replace=[(ADDI, 'pre_c01', 'post_add')], cxx='($1 + $2)')
U('C01', 'c01.sub.op', OP_SUB_FF, 'pre_c01', 'post_sub', replace=[(SUBI, 'pre_c01', 'post_sub')], cxx='($1 - $2)')
U('C01', 'c01.add.assign', OP_ADDA_F, 'pre_c01', 'post_add', replace=[(ADDI, 'pre_c01', 'post_add')], cxx='($1 += $2)')
U('C01', 'c01.sub.assign', OP_SUBA_F, 'pre_c01', 'post_sub', replace=[(SUBI, 'pre_c01', 'post_sub')], cxx='($1 -= $2)')


# ----------------------------------------------------------------------------- C06
prop('C06', 'proof',
     'Each of the six comparison operators is verified equal to the mathematical comparison of the raw values '
     'for all 2^128 raw pairs; isnan, unary minus and abs are verified against their value-model postconditions '
     'on every finite value and both NaNs (the single excluded raw value INT64_MIN is not a fixed_t value of the '
     'model); sentinel ordering, involution, trichotomy and transitivity are lemmas over the real operators.')
for nm, mg, op in (('eq', 'eq', '=='), ('ne', 'ne', '!='), ('lt', 'lt', '<'), ('le', 'le', '<='), ('gt', 'gt', '>'), ('ge', 'ge', '>=')):
    U('C06', 'c06.cmp.' + nm, '_ZN9fixedmath%sENS_7fixed_tES0_' % mg, 'pre_any2', 'post_' + nm, cxx='($1 %s $2)' % op)
ISNAN = '_ZN9fixedmath5isnanENS_7fixed_tE'
NEG = '_ZN9fixedmathngENS_7fixed_tE'
ABS = '_ZN9fixedmath3absENS_7fixed_tE'
U('C06', 'c06.isnan', ISNAN, 'pre_valid1', 'post_isnan', cxx='fixedmath::isnan($1)')
U('C06', 'c06.neg', NEG, 'pre_valid1', 'post_neg', cxx='(-$1)')
U('C06', 'c06.abs', ABS, 'pre_valid1', 'post_abs', cxx='fixedmath::abs($1)')
for lem, pre in (('lem_c06_nan_order', 'pre_valid1'), ('lem_c06_isnan_sentinels', 'pre_valid1'), ('lem_c06_negneg', 'pre_valid1'),
                 ('lem_c06_absneg', 'pre_valid1'), ('lem_c06_trichotomy', 'pre_any2'), ('lem_c06_transitive', None)):
    U('C06', 'c06.' + lem, lem, pre, None, lemma=True, cxx=lem + '(' + ','.join('$%d' % (i + 1) for i in range({'lem_c06_trichotomy': 2, 'lem_c06_transitive': 3}.get(lem, 1))) + ')')

# ----------------------------------------------------------------------------- C15
prop('C15', 'proof',
     'floor and ceil are verified against the bracketing postconditions (integer valued, floor(x) <= x < floor(x)+1, '
     'ceil(x)-1 < x <= ceil(x), identity on integers) for every raw value with |x| < 2^47-1, including all UB '
     'obligations; ceil(x) == -floor(-x) is a lemma over the real functions.')
FLOOR = '_ZN9fixedmath5floorENS_7fixed_tE'
CEIL = '_ZN9fixedmath4ceilENS_7fixed_tE'
U('C15', 'c15.floor', FLOOR, 'pre_c15', 'post_floor', cxx='fixedmath::floor($1)')
U('C15', 'c15.ceil', CEIL, 'pre_c15', 'post_ceil', cxx='fixedmath::ceil($1)')
U('C15', 'c15.lem_ceil_floor', 'lem_c15_ceil_floor', 'pre_c15', None, lemma=True, cxx='lem_c15_ceil_floor($1)')

# ----------------------------------------------------------------------------- C18
prop('C18', 'proof',
     'operator>>, operator<< and operator& are verified for every finite raw value and every count in [INT_MIN, 63] '
     'against 128-bit specifications: x>>r is floor(x/2^r), x<<r is x*2^r when that is in [lowest,max] and otherwise '
     'never of opposite sign, negative counts give NaN; & is the bitwise and of the representations (all 2^128 pairs).')
SHR = '_ZN9fixedmathrsENS_7fixed_tEi'
SHL = '_ZN9fixedmathlsENS_7fixed_tEi'
AND = '_ZN9fixedmathanENS_7fixed_tES0_'
U('C18', 'c18.shr', SHR, 'pre_c18', 'post_shr', cxx='($1 >> $2)', backends=('sat', 'kissat'), timeout=300)
U('C18', 'c18.shl', SHL, 'pre_c18', 'post_shl', cxx='($1 << $2)', backends=('sat', 'kissat'), timeout=300)
U('C18', 'c18.and', AND, 'pre_any2', 'post_and', cxx='($1 & $2)')

# ----------------------------------------------------------------------------- C04
ITYPES = [('a', 'int8_t'), ('s', 'int16_t'), ('i', 'int32_t'), ('l', 'int64_t'),
          ('h', 'uint8_t'), ('t', 'uint16_t'), ('j', 'uint32_t'), ('m', 'uint64_t')]
prop('C04', 'proof',
     'integral_to_fixed<T> and fixed_to_integral<T> are verified for all 8 built-in integral types over every value '
     '(2^64 for the widest) against specifications over mathematical (128-bit) integers; the constructor, '
     'arithmetic_to_fixed, promote_to_fixed (mixed arithmetic), the conversion operator and fixed_to_arithmetic are '
     'verified against the same postconditions with the kernel replaced by its contract; the round trip is a lemma.')


def I2F(t): return '_ZN9fixedmath17integral_to_fixedI%svEENS_7fixed_tET_' % t
def F2I(t): return '_ZN9fixedmath17fixed_to_integralI%svEET_NS_7fixed_tE' % t
def CTOR(t): return '_ZN9fixedmath7fixed_tC1I%svEERKT_' % t
def A2F(t): return '_ZN9fixedmath19arithmetic_to_fixedI%svEENS_7fixed_tET_' % t
def P2F(t): return '_ZN9fixedmath6detail16promote_to_fixedI%svEENS_7fixed_tET_' % t
def F2A(t): return '_ZN9fixedmath19fixed_to_arithmeticI%svEET_NS_7fixed_tE' % t
def CONV(t): return '_ZNK9fixedmath7fixed_tcvT_I%svEEv' % t


for t, ct in ITYPES:
    k_i2f = (I2F(t), 'pre_i2f_' + t, 'post_i2f_' + t)
    k_f2i = (F2I(t), 'pre_finite1', 'post_f2i_' + t)
    U('C04', 'c04.i2f.%s' % ct, I2F(t), 'pre_i2f_' + t, 'post_i2f_' + t, cxx='fixedmath::integral_to_fixed<%s>($1)' % ct)
    U('C04', 'c04.f2i.%s' % ct, F2I(t), 'pre_finite1', 'post_f2i_' + t, cxx='fixedmath::fixed_to_integral<%s>($1)' % ct)
    U('C04', 'c04.ctor.%s' % ct, CTOR(t), 'pre_i2f_' + t, 'post_i2f_' + t, replace=[k_i2f], cxx='fixedmath::fixed_t($1)')
    U('C04', 'c04.a2f.%s' % ct, A2F(t), 'pre_i2f_' + t, 'post_i2f_' + t, replace=[k_i2f], cxx='fixedmath::arithmetic_to_fixed<%s,void>($1)' % ct)
    U('C04', 'c04.promote.%s' % ct, P2F(t), 'pre_i2f_' + t, 'post_i2f_' + t, replace=[k_i2f], cxx='fixedmath::detail::promote_to_fixed($1)')
    U('C04', 'c04.conv.%s' % ct, CONV(t), 'pre_finite1', 'post_f2i_' + t, replace=[k_f2i], cxx='static_cast<%s>($1)' % ct)
    U('C04', 'c04.f2a.%s' % ct, F2A(t), 'pre_finite1', 'post_f2i_' + t, replace=[k_f2i], cxx='fixedmath::fixed_to_arithmetic<%s>($1)' % ct)
    U('C04', 'c04.roundtrip.%s' % ct, 'lem_c04_roundtrip_' + t, 'pre_i2f_' + t, None, lemma=True, cxx='lem_c04_roundtrip_%s($1)' % t)

# ----------------------------------------------------------------------------- C05
prop('C05', 'proof',
     'floating_point_to_fixed<float|double> is verified for every bit pattern against an integer-exact specification: '
     'NaN outside (-(2^31-1), 2^31-1) (incl. inf/NaN); inside, |raw - v*65536| <= 0.5 plus one rounding of the sum '
     '(2^-p relative), exact ties away from zero; no float->int UB. fixed_to_floating_point<double> exact for '
     '|raw| <= 2^53, <float> equal to the correctly rounded int64->float conversion scaled exactly; '
     'fixed->double->fixed identity for |raw| < 2^47 (lemma over the real functions).',
     assumptions=['CBMC\'s IEEE-754 model (round-to-nearest-even, int64->float/double conversion correctly rounded) is the definition of "correctly rounded"'])


def FP2F(t): return '_ZN9fixedmath23floating_point_to_fixedI%svEENS_7fixed_tET_' % t
def F2FP(t): return '_ZN9fixedmath23fixed_to_floating_pointI%svEET_NS_7fixed_tE' % t


FPK = {'d': (FP2F('d'), 'pre_anyd', 'post_d2f'), 'f': (FP2F('f'), 'pre_anyf', 'post_f2f')}
U('C05', 'c05.d2f', FP2F('d'), 'pre_anyd', 'post_d2f', cxx='fixedmath::floating_point_to_fixed<double>($1)', backends=('sat', 'kissat'), timeout=600)
U('C05', 'c05.f2f', FP2F('f'), 'pre_anyf', 'post_f2f', cxx='fixedmath::floating_point_to_fixed<float>($1)', backends=('sat', 'kissat'), timeout=600)
U('C05', 'c05.f2d', F2FP('d'), 'pre_f2d', 'post_f2d', cxx='fixedmath::fixed_to_floating_point<double>($1)', backends=('sat', 'kissat'), timeout=600)
U('C05', 'c05.f2fl', F2FP('f'), 'pre_finite1', 'post_f2fl', cxx='fixedmath::fixed_to_floating_point<float>($1)', backends=('sat', 'kissat'), timeout=600)
for t, ct in (('d', 'double'), ('f', 'float')):
    pre, post = FPK[t][1], FPK[t][2]
    U('C05', 'c05.ctor.' + ct, CTOR(t), pre, post, replace=[FPK[t]], cxx='fixedmath::fixed_t($1)')
    U('C05', 'c05.a2f.' + ct, A2F(t), pre, post, replace=[FPK[t]], cxx='fixedmath::arithmetic_to_fixed<%s,void>($1)' % ct)
    if t == 'f':   # a double operand promotes the computation to double (C16); promote_to_fixed<double> is never instantiated
        U('C05', 'c05.promote.' + ct, P2F(t), pre, post, replace=[FPK[t]], cxx='fixedmath::detail::promote_to_fixed($1)')
U('C05', 'c05.conv.double', CONV('d'), 'pre_f2d', 'post_f2d', replace=[(F2FP('d'), 'pre_f2d', 'post_f2d')], cxx='static_cast<double>($1)')
U('C05', 'c05.conv.float', CONV('f'), 'pre_finite1', 'post_f2fl', replace=[(F2FP('f'), 'pre_finite1', 'post_f2fl')], cxx='static_cast<float>($1)')
U('C05', 'c05.roundtrip', 'lem_c05_roundtrip', 'pre_c05_rt', None, lemma=True, cxx='lem_c05_roundtrip($1)', backends=('sat', 'kissat'), timeout=600)

# ----------------------------------------------------------------------------- C02
prop('C02', 'proof',
     'fixed_multiplyi is verified against the 128-bit product for all pairs of finite raw values (NaN or within one '
     'ulp; not NaN when the raw product fits in int64; NaN when the exact product is out of range); '
     'fixed_multiply_scalar<T> is verified exact-or-NaN for all 8 integral types in both operand orders with the '
     'scalar taken as a mathematical integer; operator* and operator*= are verified with the kernels replaced by '
     'their contracts. Multiplier obligations are discharged by kissat/cadical.',
     assumptions=['the non-GNU fall-back branch of detail::checked_multiply is verified through the guarded hook '
                  'FIXEDMATH_VERIF_PORTABLE_MULTIPLY (configuration `portable`, INT back end); it is not compiled in any configuration of C08'])
MULI = '_ZN9fixedmath6detail15fixed_multiplyiENS_7fixed_tES1_'
K_MULI = (MULI, 'pre_c01', 'post_mul')
MULBE = ('kissat', 'cadical')
U('C02', 'c02.mul.kernel', MULI, 'pre_c01', 'post_mul', cxx='fixedmath::detail::fixed_multiplyi($1,$2)', backends=MULBE, timeout=600, split=True)
U('C02', 'c02.mul.op', '_ZN9fixedmathmlINS_7fixed_tES1_vEEDaT_T0_', 'pre_c01', 'post_mul', replace=[K_MULI], cxx='($1 * $2)', backends=MULBE, timeout=900)
U('C02', 'c02.mul.assign', '_ZN9fixedmathmLINS_7fixed_tEvEERS1_S2_T_', 'pre_c01', 'post_mul', replace=[K_MULI], cxx='($1 *= $2)', backends=MULBE, timeout=900)
for t, ct in ITYPES:
    ks = ('_ZN9fixedmath6detail21fixed_multiply_scalarI%svEENS_7fixed_tES2_T_' % t, 'pre_muls_' + t, 'post_muls_' + t)
    kr = ('_ZN9fixedmath6detail21fixed_multiply_scalarI%svEENS_7fixed_tET_S2_' % t, 'pre_mulsr_' + t, 'post_mulsr_' + t)
    U('C02', 'c02.muls.%s' % ct, ks[0], ks[1], ks[2], cxx='fixedmath::detail::fixed_multiply_scalar($1,$2)', backends=MULBE, timeout=600, split=True)
    U('C02', 'c02.mulsr.%s' % ct, kr[0], kr[1], kr[2], replace=[ks], cxx='fixedmath::detail::fixed_multiply_scalar($1,$2)', backends=MULBE, timeout=900)
    U('C02', 'c02.op.f_%s' % ct, '_ZN9fixedmathmlINS_7fixed_tE%svEEDaT_T0_' % t, ks[1], ks[2], replace=[ks], cxx='($1 * $2)', backends=MULBE, timeout=900)
    U('C02', 'c02.op.%s_f' % ct, '_ZN9fixedmathmlI%sNS_7fixed_tEvEEDaT_T0_' % t, kr[1], kr[2], replace=[ks], cxx='($1 * $2)', backends=MULBE, timeout=900)
    U('C02', 'c02.assign.%s' % ct, '_ZN9fixedmathmLI%svEERNS_7fixed_tES2_T_' % t, ks[1], ks[2], replace=[ks], cxx='($1 *= $2)', backends=MULBE, timeout=900)

# self-check of the INT executor on the out-parameter / early-return shape the portable branch has (see spec/common.hpp)
U('C02', 'c02.int_selfcheck.outparam', 'lem_int_outparam', 'pre_anyl', None, lemma=True, cxx='lem_int_outparam($1)', engine='int', timeout=60)
# portable (non-GNU) branch of checked_multiply, compiled through the verification hook
U('C02', 'c02.mul.kernel.portable', MULI, 'pre_c01', 'post_mul', cfg='portable', cxx='fixedmath::detail::fixed_multiplyi($1,$2)', engine='int', timeout=300)
for t, ct in ITYPES:
    U('C02', 'c02.muls.portable.%s' % ct, '_ZN9fixedmath6detail21fixed_multiply_scalarI%svEENS_7fixed_tES2_T_' % t, 'pre_muls_' + t, 'post_muls_' + t, cfg='portable',
      cxx='fixedmath::detail::fixed_multiply_scalar($1,$2)', engine='int', timeout=300)

# ----------------------------------------------------------------------------- C03
prop('C03', 'proof',
     'fixed_divisionf is verified for all pairs of finite raw values: NaN for a zero divisor, otherwise NaN or '
     '|q*y - x*2^16| < |y| in 128-bit arithmetic (within 2^-16 of the exact quotient), never NaN for |x| < 2^31; '
     'fixed_division_by_scalar<T> is verified to return the truncated exact quotient for every non-zero divisor of '
     'all 8 integral types (divisor as a mathematical integer) and NaN for zero. The division-by-zero and '
     'INT64_MIN/-1 obligations of every division are the "never traps" clause. operator/ and operator/= are '
     'verified with the kernels replaced by their contracts.')
DIVF = '_ZN9fixedmath6detail15fixed_divisionfENS_7fixed_tES1_'
K_DIVF = (DIVF, 'pre_c01', 'post_div_mul')
K_SHL = (SHL, 'pre_c18', 'post_shl')
U('C03', 'c03.div.kernel', DIVF, 'pre_c01', 'post_div_mul', cxx='fixedmath::detail::fixed_divisionf($1,$2)', engine='int', replace=[K_SHL], timeout=120)
U('C03', 'c03.div.kernel.ub', DIVF, 'pre_c01', 'post_div_ub', cxx='fixedmath::detail::fixed_divisionf($1,$2)', backends=MULBE, timeout=900)
U('C03', 'c03.div.kernel.bv', DIVF, 'pre_c01', 'post_div_mul', cxx='fixedmath::detail::fixed_divisionf($1,$2)', backends=MULBE, timeout=3000, split=True, tier='thorough')
U('C03', 'c03.div.op', '_ZN9fixedmathdvINS_7fixed_tES1_vEEDaT_T0_', 'pre_c01', 'post_div_mul', replace=[K_DIVF], cxx='($1 / $2)', backends=MULBE, timeout=900)
U('C03', 'c03.div.assign', '_ZN9fixedmathdVINS_7fixed_tEvEERS1_S2_T_', 'pre_c01', 'post_div_mul', replace=[K_DIVF], cxx='($1 /= $2)', backends=MULBE, timeout=900)
for t, ct in ITYPES:
    ks = ('_ZN9fixedmath6detail24fixed_division_by_scalarI%svEENS_7fixed_tES2_T_' % t, 'pre_muls_' + t, 'post_divs_mul_' + t)
    U('C03', 'c03.divs.%s' % ct, ks[0], ks[1], 'post_divs_mul_' + t, cxx='fixedmath::detail::fixed_division_by_scalar($1,$2)', engine='int', timeout=120)
    U('C03', 'c03.divs.ub.%s' % ct, ks[0], ks[1], 'post_divs_ub_' + t, cxx='fixedmath::detail::fixed_division_by_scalar($1,$2)', backends=MULBE, timeout=900)
    U('C03', 'c03.divs.bv.%s' % ct, ks[0], ks[1], 'post_divs_mul_' + t, cxx='fixedmath::detail::fixed_division_by_scalar($1,$2)', backends=MULBE, timeout=3000, split=True, tier='thorough')
    U('C03', 'c03.op.f_%s' % ct, '_ZN9fixedmathdvINS_7fixed_tE%svEEDaT_T0_' % t, ks[1], ks[2], replace=[ks], cxx='($1 / $2)', backends=MULBE, timeout=900)
    U('C03', 'c03.assign.%s' % ct, '_ZN9fixedmathdVI%svEERNS_7fixed_tES2_T_' % t, ks[1], ks[2], replace=[ks], cxx='($1 /= $2)', backends=MULBE, timeout=900)

# ----------------------------------------------------------------------------- C16
prop('C16', 'proof',
     'For each of the 8 integral operand types and float, relational lemmas over the REAL operators state that '
     'a op t == a op fixed_t(t), t op a == fixed_t(t) op a and that a op= t leaves a == a op t (fixed*integer and '
     'fixed/integer: exact product / exact truncated quotient as in C02/C03, and n*a == a*n); for double the lemma '
     'states bit-identity (+0/-0 distinguished, NaN == NaN) with the IEEE operation on double(a) and the operand in '
     'the written order. Every lemma is verified for all finite a and all t that convert without NaN; the forwarding '
     'layers, promotions and conversions are inlined, the multiplication/division kernels enter the relational '
     'lemmas through the determinism abstraction (same kernel, same arguments => same result).',
     not_decided=['a op= double does not compile in the library (no assignment from double), so it is outside the domain'])
OPS = [('add', '+'), ('sub', '-'), ('mul', '*'), ('div', '/')]
UF_MULI = (MULI, 'UF', None)
UF_DIVF = (DIVF, 'UF', None)
for t, ct in ITYPES:
    pre = 'pre_c16_' + t
    ks = '_ZN9fixedmath6detail21fixed_multiply_scalarI%svEENS_7fixed_tES2_T_' % t
    kd = '_ZN9fixedmath6detail24fixed_division_by_scalarI%svEENS_7fixed_tES2_T_' % t
    for opn, sym in OPS[:2]:
        for v in ('lr', 'rl', 'as'):
            U('C16', 'c16.%s.%s.%s' % (opn, v, ct), 'lem_c16_%s_%s_%s' % (v, opn, t), pre, None, lemma=True, cxx='lem_c16_%s_%s_%s($1,$2)' % (v, opn, t))
    U('C16', 'c16.muls.%s' % ct, 'lem_c16_muls_' + t, 'pre_muls_' + t, None, lemma=True, cxx='lem_c16_muls_%s($1,$2)' % t, backends=MULBE, timeout=1200)
    U('C16', 'c16.mulc.%s' % ct, 'lem_c16_mulc_' + t, 'pre_muls_' + t, None, lemma=True, cxx='lem_c16_mulc_%s($1,$2)' % t, replace=[(ks, 'UF', None)])
    U('C16', 'c16.mul.as.%s' % ct, 'lem_c16_as_mul_' + t, 'pre_muls_' + t, None, lemma=True, cxx='lem_c16_as_mul_%s($1,$2)' % t, replace=[(ks, 'UF', None)])
    U('C16', 'c16.divs.%s' % ct, 'lem_c16_divs_' + t, 'pre_muls_' + t, None, lemma=True, cxx='lem_c16_divs_%s($1,$2)' % t, engine='int', timeout=120)
    U('C16', 'c16.div.as.%s' % ct, 'lem_c16_as_div_' + t, 'pre_muls_' + t, None, lemma=True, cxx='lem_c16_as_div_%s($1,$2)' % t, replace=[(kd, 'UF', None)])
    U('C16', 'c16.div.rl.%s' % ct, 'lem_c16_rl_div_' + t, pre, None, lemma=True, cxx='lem_c16_rl_div_%s($1,$2)' % t, replace=[UF_DIVF])
for opn, sym in OPS:
    rep = {'mul': [UF_MULI], 'div': [UF_DIVF]}.get(opn, [])
    for v in ('lr', 'rl', 'as'):
        U('C16', 'c16.%s.%s.float' % (opn, v), 'lem_c16_%s_%s_f' % (v, opn), 'pre_c16_f', None, lemma=True, cxx='lem_c16_%s_%s_f($1,$2)' % (v, opn), replace=rep, backends=('sat', 'kissat'), timeout=300)
    U('C16', 'c16.%s.lr.double' % opn, 'lem_c16_dlr_' + opn, 'pre_c16_d', None, lemma=True, cxx='lem_c16_dlr_%s($1,$2)' % opn, backends=('cvc5fpa', 'z3fpa', 'kissat'), timeout=300)
    U('C16', 'c16.%s.rl.double' % opn, 'lem_c16_drl_' + opn, 'pre_c16_d', None, lemma=True, cxx='lem_c16_drl_%s($1,$2)' % opn, backends=('cvc5fpa', 'z3fpa', 'kissat'), timeout=300)

# ----------------------------------------------------------------------------- C17
prop('C17', 'proof',
     'Each law is a lemma function over the REAL operators, verified for all finite operands: commutativity of + '
     '(BV) and * (INT), a-b == a+(-b), a-a == 0, the unit laws on |a| < 2^31 (a*1, a*0, a/1, a/a; fixed and integer '
     'units), and under "no intermediate NaN": (a+b)-b == a, associativity of +, the induction step '
     'a*(n+1) == a*n + a (with a*0 == 0 and a*1 == a this is "a added to itself n times" for every n of either '
     'sign), (a*n)/n == a and monotonicity of +. Laws containing * or / are discharged by the INT back end on the '
     'same AST (range obligation on every signed operation), the others by CBMC. Operation sequences of bounded '
     'length follow by compositionality of the exact-or-NaN contracts of C01-C03; no sequence enumeration is done.')
INTQ = dict(engine='int', timeout=180)
U('C17', 'c17.add_comm', 'lem_c17_add_comm', 'pre_c01', None, lemma=True, cxx='lem_c17_add_comm($1,$2)')
U('C17', 'c17.mul_comm', 'lem_c17_mul_comm', 'pre_c01', None, lemma=True, cxx='lem_c17_mul_comm($1,$2)', **INTQ)
U('C17', 'c17.sub_neg', 'lem_c17_sub_neg', 'pre_c01', None, lemma=True, cxx='lem_c17_sub_neg($1,$2)')
U('C17', 'c17.sub_self', 'lem_c17_sub_self', 'pre_c01', None, lemma=True, cxx='lem_c17_sub_self($1,$2)')
I2F_L = (I2F('l'), 'pre_i2f_l', 'post_i2f_l')
I2F_I = (I2F('i'), 'pre_i2f_i', 'post_i2f_i')
U('C17', 'c17.mul_one', 'lem_c17_mul_one', 'pre_c17_small', None, lemma=True, cxx='lem_c17_mul_one($1)', replace=[I2F_L], **INTQ)
U('C17', 'c17.mul_zero', 'lem_c17_mul_zero', 'pre_c17_small', None, lemma=True, cxx='lem_c17_mul_zero($1)', replace=[I2F_L], **INTQ)
U('C17', 'c17.div_one', 'lem_c17_div_one', 'pre_c17_small', None, lemma=True, cxx='lem_c17_div_one($1)', replace=[I2F_L, K_SHL], **INTQ)
U('C17', 'c17.div_self', 'lem_c17_div_self', 'pre_c17_small', None, lemma=True, cxx='lem_c17_div_self($1)', replace=[I2F_L, K_SHL], **INTQ)
U('C17', 'c17.add_sub', 'lem_c17_add_sub', 'pre_c01', None, lemma=True, cxx='lem_c17_add_sub($1,$2)')
U('C17', 'c17.add_sub_seq', 'lem_c17_add_sub_seq', 'pre_c01', None, lemma=True, cxx='lem_c17_add_sub_seq($1,$2)')
U('C17', 'c17.assoc', 'lem_c17_assoc', 'pre_c17_3', None, lemma=True, cxx='lem_c17_assoc($1,$2,$3)')
for t, ct in ITYPES:
    U('C17', 'c17.mul_step.' + ct, 'lem_c17_mul_step_' + t, 'pre_muls_' + t, None, lemma=True, cxx='lem_c17_mul_step_%s($1,$2)' % t, **INTQ)
    U('C17', 'c17.mul_div.' + ct, 'lem_c17_mul_div_' + t, 'pre_muls_' + t, None, lemma=True, cxx='lem_c17_mul_div_%s($1,$2)' % t, **INTQ)
    U('C17', 'c17.mul_div_seq.' + ct, 'lem_c17_mul_div_seq_' + t, 'pre_muls_' + t, None, lemma=True, cxx='lem_c17_mul_div_seq_%s($1,$2)' % t,
      replace=[(I2F(t), 'pre_i2f_' + t, 'post_i2f_' + t), K_SHL], **INTQ)
U('C17', 'c17.add_mono', 'lem_c17_add_mono', 'pre_c17_3', None, lemma=True, cxx='lem_c17_add_mono($1,$2,$3)')

# ----------------------------------------------------------------------------- C13
prop('C13', 'other',
     'Abacus algorithm (constant evaluation / FIXEDMATH_ENABLE_SQRT_ABACUS_ALGO): the while loop of sqrt_abacus is '
     'closed by a loop contract (invariant over ghost k, R and an opaque square table SQ[], decreases pwr4) and the '
     'function is verified for every 0 <= x.v < 2^48 against the floor-root postcondition SQ[r] <= N, N - SQ[r] <= 2r '
     '(N = x.v*2^16), NaN for x < 0; the two facts about SQ used inside the loop are proved for real multiplication '
     '(ring identity), and exit => r^2 <= N < (r+1)^2, exact on squares and monotonicity are lemmas over arbitrary '
     'integers. std::sqrt algorithm: UB-freedom (double->int64 in range) is proved under the assumed contract of '
     'std::sqrt; its accuracy is covered by a bounded native scan (labelled stand-in).',
     assumptions=['instantiation of the opaque table: the loop proof holds for every SQ[] satisfying the applied lemma '
                  'instances; SQ[x] := x*x satisfies them (units c13.lem.sq_step, proved), hence the postcondition holds for real squares',
                  'std::sqrt(double) is correctly rounded (IEEE-754), >= 0 for x >= 0, and NaN only for x < 0 or NaN (assumed contract of the external function)'],
     technique='CBMC loop contracts (invariant/decreases/assigns, goto-instrument --apply-loop-contracts) with ghost state and lemma functions applied by contract; ring/NIA lemmas by z3/cvc5; native stand-in for the std::sqrt path')
SQRT_ABACUS = '_ZN9fixedmath6detail11sqrt_abacusENS_7fixed_tE'
PWR4 = '_ZN9fixedmath6detail16highest_pwr4_clzEm'
SQ_PRELUDE = """
extern const unsigned long SQ[];   /* opaque square table: unsized on purpose (see DESIGN 3.3) */
void vf_lemma_sq_step(unsigned long R, int k)
__CPROVER_requires(k >= 0 && k <= 31 && R < (1ul << 32))
__CPROVER_ensures(SQ[R + (1ul << k)] == SQ[R] + (R << (k + 1)) + (1ul << (2 * k)))
__CPROVER_assigns();
void vf_lemma_sq_zero(void)
__CPROVER_ensures(SQ[0] == 0 && SQ[1] == 1)
__CPROVER_assigns();
"""
def sqrt_roles(fn_node):
    """bind the roles {val} (remainder), {pwr4} (current power of four), {result} (accumulated root) of the abacus loop
    to the names the source uses, from the shape `while( P != 0 ) { if( V >= ( R + P ) ) ...`"""
    from vfx.extract import kids
    from vfx.core import Undecided

    def strip(n):
        while n.get('kind') in ('ImplicitCastExpr', 'ParenExpr', 'CXXStaticCastExpr', 'CStyleCastExpr', 'CXXFunctionalCastExpr'):
            n = kids(n)[-1]
        return n

    def find(n, kind):
        if n.get('kind') == kind:
            return n
        for c in kids(n):
            r = find(c, kind)
            if r:
                return r
        return None
    w = find(fn_node, 'WhileStmt') if fn_node else None
    loop_body = kids(w)[1] if w else None
    cond_node = kids(w)[0] if w else None
    if not w:
        w = find(fn_node, 'ForStmt') if fn_node else None
        if not w:
            raise Undecided('sqrt_abacus: no loop found')
        parts = [c for c in w.get('inner', [])]
        if len(parts) != 5 or not parts[2]:
            raise Undecided('sqrt_abacus: for loop shape')
        cond_node, loop_body = parts[2], parts[4]
    cond = strip(cond_node)
    if cond.get('kind') != 'BinaryOperator' or cond.get('opcode') not in ('!=', '>') or strip(kids(cond)[0]).get('kind') != 'DeclRefExpr' \
            or strip(kids(cond)[1]).get('value') != '0':
        raise Undecided('sqrt_abacus: loop condition is not `P != 0` / `P > 0`')
    pwr4 = strip(kids(cond)[0])['referencedDecl']['name']
    iff = find(loop_body, 'IfStmt')
    c = strip(kids(iff)[0]) if iff else {}
    if c.get('kind') != 'BinaryOperator' or c.get('opcode') != '>=':
        raise Undecided('sqrt_abacus: loop body does not start with `if( V >= ( R + P ) )`')
    v = strip(kids(c)[0])
    sm = strip(kids(c)[1])
    if sm.get('kind') == 'DeclRefExpr':
        # the sum may be hoisted into a local: `T trial = R + P; if( V >= trial )`
        def find_decl(n, did):
            if n.get('kind') == 'VarDecl' and n.get('id') == did:
                return n
            for c2 in kids(n):
                r = find_decl(c2, did)
                if r:
                    return r
            return None
        d = find_decl(loop_body, sm['referencedDecl']['id'])
        init = [x for x in kids(d)] if d else []
        sm = strip(init[-1]) if init else sm
        while sm.get('kind') == 'InitListExpr' and kids(sm):
            sm = strip(kids(sm)[0])
    if v.get('kind') != 'DeclRefExpr' or sm.get('kind') != 'BinaryOperator' or sm.get('opcode') != '+':
        raise Undecided('sqrt_abacus: comparison shape')
    a, b = strip(kids(sm)[0]), strip(kids(sm)[1])
    names = [x['referencedDecl']['name'] for x in (a, b) if x.get('kind') == 'DeclRefExpr']
    if len(names) != 2 or pwr4 not in names:
        raise Undecided('sqrt_abacus: sum shape')
    result = [x for x in names if x != pwr4][0]
    return {'val': v['referencedDecl']['name'], 'pwr4': pwr4, 'result': result}


SQRT_LOOP = """__CPROVER_assigns({val}, {pwr4}, {result}, vf_k, vf_R)
__CPROVER_loop_invariant(-1 <= vf_k && vf_k <= 31 && vf_R < (1ul << 32))
__CPROVER_loop_invariant({pwr4} == (vf_k >= 0 ? (1ul << (2 * (vf_k >= 0 ? vf_k : 0))) : 0ul))
__CPROVER_loop_invariant((vf_R & ((1ul << (vf_k + 1)) - 1)) == 0 && {result} == (vf_R << (vf_k + 1)))
__CPROVER_loop_invariant(SQ[vf_R] <= vf_N && {val} + SQ[vf_R] == vf_N)
__CPROVER_loop_invariant((unsigned __int128){val} < ((unsigned __int128)vf_R << (vf_k + 2)) + ((unsigned __int128)1 << (2 * vf_k + 2)))
__CPROVER_decreases({pwr4})"""
SQRT_GHOST = {
    (SQRT_ABACUS, ('loop_before', 1)): 'unsigned long vf_N = {val}; int vf_k = ({pwr4} == 0) ? -1 : (63 - __builtin_clzl({pwr4})) / 2; unsigned long vf_R = 0; vf_lemma_sq_zero();',
    (SQRT_ABACUS, ('if_then_begin', 2)): 'vf_lemma_sq_step(vf_R, vf_k); vf_R += 1ul << vf_k;',
    (SQRT_ABACUS, ('loop_body_end', 1)): 'vf_k -= 1;',
}
U('C13', 'c13.abacus.loop', SQRT_ABACUS, 'pre_valid1', None, cxx='fixedmath::detail::sqrt_abacus($1)',
  ensures_extra=['($1.v < 0 || $1.v >= (1l << 48)) ? vf_isnan(__CPROVER_return_value) : '
                 '(__CPROVER_return_value.v >= 0 && __CPROVER_return_value.v < (1l << 32) && '
                 'SQ[__CPROVER_return_value.v] <= ((unsigned long)$1.v << 16) && '
                 '((unsigned long)$1.v << 16) - SQ[__CPROVER_return_value.v] <= 2ul * (unsigned long)__CPROVER_return_value.v)'],
  prelude=SQ_PRELUDE, needs=['vf_isnan'], loop_contracts={1: SQRT_LOOP}, ghost=SQRT_GHOST, role_binder=sqrt_roles, replace_raw=['vf_lemma_sq_step', 'vf_lemma_sq_zero'],
  backends=('kissat', 'z3'), timeout=600, split=True, expect_props=['loop_invariant_base', 'loop_invariant_step', 'loop_decreases'])
U('C13', 'c13.abacus.small.bounded', SQRT_ABACUS, 'pre_c13_small', 'post_sqrt', cxx='fixedmath::detail::sqrt_abacus($1)',
  unwind=20, backends=('kissat', 'cadical'), timeout=600, bounded='x.v < 2^14, loop unwound 20 times with unwinding assertion', note='BOUNDED (x.v < 2^14, loop unwound 20 times with unwinding assertion): real-square postcondition, not counted as the unbounded proof')
U('C13', 'c13.pwr4', PWR4, 'pre_anyu', 'post_pwr4', cxx='fixedmath::detail::highest_pwr4_clz($1)')
# the same function through the INT back end: no new fact (its contract is proved by the unit above), but it makes the translation-validation
# guard exercise the INT semantics of clz and of shifts by a symbolic distance, which the hypot accuracy units (C14) rely on
U('C13', 'c13.pwr4.int', PWR4, 'pre_anyu', None, cxx='fixedmath::detail::highest_pwr4_clz($1)', **INTQ)
U('C13', 'c13.lem.sq_step', 'lem_sq_step', 'pre_sq_step', None, lemma=True, cxx='lem_sq_step($1,$2)', backends=('z3', 'cvc5'), timeout=300)
U('C13', 'c13.lem.exit', 'lem_sqrt_exit', 'pre_sqrt_exit', None, lemma=True, cxx='lem_sqrt_exit($1,$2)', engine='int', timeout=300)
U('C13', 'c13.lem.exact_on_squares', 'lem_sqrt_sq', 'pre_sqrt_sq', None, lemma=True, cxx='lem_sqrt_sq($1,$2,$3)', engine='int', timeout=300)
U('C13', 'c13.lem.monotone', 'lem_sqrt_mono', 'pre_sqrt_mono', None, lemma=True, cxx='lem_sqrt_mono($1,$2,$3,$4)', engine='int', timeout=300)
SQRT_STD = '_ZN9fixedmath6detail13sqrt_std_mathENS_7fixed_tE'
VF_SQRT_PRELUDE = """
double vf_sqrt(double x)
__CPROVER_ensures((x < 0.0 || x != x) ? (__CPROVER_return_value != __CPROVER_return_value)
                  : (__CPROVER_return_value >= 0.0 && (__CPROVER_return_value <= 65536.0 || __CPROVER_return_value <= x / 65536.0)))
__CPROVER_assigns();
"""
U('C13', 'c13.std.ub', SQRT_STD, 'pre_valid1', 'post_sqrt_std', cxx='fixedmath::detail::sqrt_std_math($1)',
  prelude=VF_SQRT_PRELUDE.replace('double vf_sqrt(double x);', ''), replace_raw=['vf_sqrt'], backends=('sat', 'kissat'), timeout=300)
SQRT = '_ZN9fixedmath4sqrtENS_7fixed_tE'
K_SQRT_AB = (SQRT_ABACUS, 'pre_valid1', 'post_sqrt')     # floor-root contract in real squares (loop proof + lem.exit)
K_SQRT_STD = (SQRT_STD, 'pre_valid1', 'post_sqrt_std')
U('C13', 'c13.sqrt.dispatch.abacus', SQRT, 'pre_valid1', 'post_sqrt', replace=[K_SQRT_AB], cfg='abacus', cxx='fixedmath::sqrt($1)', backends=MULBE)
U('C13', 'c13.sqrt.dispatch.std', SQRT, 'pre_valid1', 'post_sqrt_std', replace=[K_SQRT_STD], cfg='stdsqrt', cxx='fixedmath::sqrt($1)')


def c13_scan(tier, seed):
    return _native.run_native('c13_sqrt_scan', 'c13_sqrt_scan.cc', 'abacus', [seed, 3000000 if tier == 'quick' else 30000000, 0 if tier == 'quick' else 1],
                              label='bounded stand-in (not proved): accuracy of the std::sqrt algorithm, cross-check of the abacus contract')


E('C13', c13_scan)

# ----------------------------------------------------------------------------- C09
prop('C09', 'other',
     'Proved for all inputs: sin_range returns the unique representative of x modulo 2*phi in [-phi/2, 3*phi/2] '
     '(INT back end, every finite x), hence sin_range(x + k*2phi) == sin_range(x); sin(x + k*2phi) == sin(x) and '
     'cos(x + k*2phi) == cos(x) exactly for |x|, |x + k*2phi| < 2^46 (INT lemmas over the real functions); sin and cos '
     'results lie in [-1, 1] and every intermediate of the polynomial kernel is overflow-free (CBMC/kissat with '
     'sin_range replaced by its contract). The accuracy clause |sin(x) - sin x| <= 4 ulp + r^9/9! mentions the real sine, '
     'which the contract language cannot express: in every tier it is decided by an exhaustive native enumeration of all '
     '823,549 raw x in [-2pi, 2pi] against long double sinl/cosl (stand-in, not proved); in the THOROUGH tier the '
     'arithmetic half of it is additionally proved: on the whole folded domain |x| <= phi/2 the result of sin differs from '
     'the exact Maclaurin polynomial x - x^3/3! + x^5/5! - x^7/7! (128-bit integer evaluation) by at most 3 ulp (51 '
     'slices of 4096 arguments, CBMC/kissat, ~7 min), which with the textbook remainder t^9/9! (assumed) and '
     '|pi - phi| < 0.42 ulp gives the stated bound without a libm oracle.',
     technique='INT back end (SMT-LIB Int) for range reduction and exact periodicity; CBMC contracts + kissat for the polynomial kernel range/UB; exhaustive native stand-in for accuracy',
     assumptions=['glibc sinl/cosl/asinl (long double, ~1e-19) as the accuracy oracle of the stand-in'])
SIN_RANGE = '_ZN9fixedmath6detail9sin_rangeENS_7fixed_tE'
SIN = '_ZN9fixedmath3sinENS_7fixed_tE'
COS = '_ZN9fixedmath3cosENS_7fixed_tE'
K_SIN_RANGE = (SIN_RANGE, 'pre_valid1', 'post_sin_range')
U('C09', 'c09.constants', 'lem_c09_constants', None, None, lemma=True, cxx='lem_c09_constants()')
U('C09', 'c09.sin_range', SIN_RANGE, 'pre_valid1', 'post_sin_range', cxx='fixedmath::detail::sin_range($1)', **INTQ)
U('C09', 'c09.sin_range.ub', SIN_RANGE, 'pre_valid1', 'post_any1', cxx='fixedmath::detail::sin_range($1)', backends=MULBE, timeout=1200)
U('C09', 'c09.range_period', 'lem_c09_range_period', 'pre_c09_per', None, lemma=True, cxx='lem_c09_range_period($1,$2)', **INTQ)
U('C09', 'c09.sin_factors', 'lem_c09_sin_factors', 'pre_c01', None, lemma=True, cxx='lem_c09_sin_factors($1,$2)', replace=[(SIN_RANGE, 'UF', 'post_sin_range')], **INTQ)
U('C09', 'c09.cos_period', 'lem_c09_cos_period', 'pre_c09_per', None, lemma=True, cxx='lem_c09_cos_period($1,$2)', **INTQ)
U('C09', 'c09.sin.kernel', SIN, 'pre_valid1', 'post_unit_interval', replace=[K_SIN_RANGE], cxx='fixedmath::sin($1)', backends=MULBE, timeout=900, split=True)
U('C09', 'c09.cos', COS, 'pre_valid1', 'post_unit_interval', replace=[(SIN, 'pre_valid1', 'post_unit_interval')], cxx='fixedmath::cos($1)', backends=MULBE, timeout=900)

# deductive accuracy of the sin kernel against the exact polynomial, sliced over the folded domain (thorough tier)
SIN_SLICE = 4096
for _k, _lo in enumerate(range(-102943, 102944, SIN_SLICE)):
    _hi = min(_lo + SIN_SLICE, 102944)
    U('C09', 'c09.sin.poly.slice%02d' % _k, SIN, None, 'post_sin_poly', cxx='fixedmath::sin($1)',
      requires_extra=['$1.v >= %d && $1.v < %d' % (_lo, _hi)], backends=MULBE, timeout=1800, tier='thorough',
      note='kernel vs exact Maclaurin polynomial, slice [%d, %d)' % (_lo, _hi))


def c09_scan(tier, seed):
    return _native.run_native('c09_sincos_scan', 'c09_sincos_scan.cc', 'abacus', [], label='exhaustive stand-in (not proved): accuracy clause of C09')


E('C09', c09_scan)

# ----------------------------------------------------------------------------- C10
prop('C10', 'other',
     'Proved for all inputs: tan_range(x) is x mod phi for every x >= 0 (INT), hence tan_range(x + k*phi) == tan_range(x); '
     'tan depends on a non-negative argument only through tan_range (INT, determinism abstraction of tan_range), which '
     'together give tan(x + k*phi) == tan(x); tan(-x) == -tan(x) for every finite x (INT lemma over the real function, '
     'including the signed NaN at the pole); tan is NaN exactly when |x| mod phi equals the library pi/2 constant and is '
     'finite otherwise, with every intermediate of the series and of the final division free of overflow and division '
     'by zero (CBMC/kissat with tan_range replaced by its contract). The accuracy clause needs the real tangent and is '
     'decided by exhaustive native enumeration of all 411,775 raw x in [-pi, pi] against tanl -- stand-in, not proved. In the '
     'THOROUGH tier the arithmetic half of the kernel is additionally proved: on its whole call domain (the multiples of 16 in '
     '[0, pi/4 * 2^20]) tan_<20> differs from the exact degree-15 Maclaurin polynomial of the tangent (128-bit integer '
     'evaluation) by at most 3 units of 2^-20 (51 slices, CBMC/kissat, ~7 min).',
     technique='INT back end for range reduction/periodicity/oddness; CBMC contracts + kissat for pole/NaN/UB of the kernel; exhaustive native stand-in for accuracy',
     assumptions=['glibc tanl (long double) as the accuracy oracle of the stand-in'])
TAN = '_ZN9fixedmath3tanENS_7fixed_tE'
TAN_RANGE = '_ZN9fixedmath6detail9tan_rangeEl'
K_TAN_RANGE = (TAN_RANGE, 'pre_tan_range', 'post_tan_range')
U('C10', 'c10.constants', 'lem_c10_constants', None, None, lemma=True, cxx='lem_c10_constants()')
U('C10', 'c10.tan_range', TAN_RANGE, 'pre_tan_range', 'post_tan_range', cxx='fixedmath::detail::tan_range($1)', **INTQ)
U('C10', 'c10.range_period', 'lem_c10_range_period', 'pre_c10_per', None, lemma=True, cxx='lem_c10_range_period($1,$2)', **INTQ)
TAN_K = '_ZN9fixedmath6detail4tan_ILi20EEEll'
DIV16 = '_ZN9fixedmath6detail4div_ILi16EEElll'
K_TAN_K = (TAN_K, 'pre_tan_k', 'post_tan_k')
K_DIV16 = (DIV16, 'pre_div16', 'post_div16')
UFP = [(TAN_RANGE, 'UF', 'post_tan_range'), (TAN_K, 'UF:pre_tan_k', 'post_tan_k'), (DIV16, 'UF:pre_div16', 'post_div16')]
U('C10', 'c10.tan_k', TAN_K, 'pre_tan_k', 'post_tan_k', cxx='fixedmath::detail::tan_<20>($1)', backends=MULBE, timeout=1800, split=True)
U('C10', 'c10.div16', DIV16, 'pre_div16', 'post_div16', cxx='fixedmath::detail::div_<16>($1,$2)', **INTQ)
U('C10', 'c10.tan_factors', 'lem_c10_tan_factors', 'pre_c10_nonneg2', None, lemma=True, cxx='lem_c10_tan_factors($1,$2)', replace=UFP, backends=('sat', 'kissat'), timeout=300)
U('C10', 'c10.odd', 'lem_c10_odd', 'pre_valid1', None, lemma=True, cxx='lem_c10_odd($1)', replace=UFP, backends=('sat', 'kissat'), timeout=300)
# deductive accuracy of the tan series kernel against the exact degree-15 Maclaurin polynomial, sliced over its call domain: the multiples
# of 16 in [0, pi/4 * 2^20] (tan() only ever passes x << 4) (thorough tier)
TAN_SHIFT = 14
for _k in range((823552 >> TAN_SHIFT) + 1):
    _lo, _hi = _k << TAN_SHIFT, min((_k + 1) << TAN_SHIFT, 823553)
    # the slice is selected by its high bits, which unit propagation turns into constants before the multipliers are encoded
    U('C10', 'c10.tan_k.poly.slice%03d' % _k, TAN_K, None, 'post_tan_poly', cxx='fixedmath::detail::tan_<20>($1)',
      requires_extra=['($1 >> %d) == %d && $1 < %d && ($1 & 15) == 0' % (TAN_SHIFT, _k, _hi)], backends=MULBE, timeout=1800, tier='thorough',
      note='kernel vs exact polynomial, slice [%d, %d)' % (_lo, _hi))
U('C10', 'c10.tan', TAN, 'pre_valid1', 'post_tan', replace=[K_TAN_RANGE, K_TAN_K, K_DIV16], cxx='fixedmath::tan($1)', **INTQ)


def c10_scan(tier, seed):
    return _native.run_native('c10_tan_scan', 'c10_tan_scan.cc', 'abacus', [], label='exhaustive stand-in (not proved): accuracy clause of C10')


E('C10', c10_scan)

# ----------------------------------------------------------------------------- C11
prop('C11', 'other',
     'Proved for all inputs: the series kernel atan<16> stays within [0, z] on its call domain (CBMC/kissat); each of the '
     'four atan_sum segments keeps the reduced argument inside that domain and its result inside the segment bounds '
     '(INT, kernel/div_ by contract); atan is bounded by the library pi/2 constant, has the sign of its argument, is 0 at '
     '0, saturates to pi/2 above 2^18 and has no overflow for ANY finite argument (INT over the segment contracts); '
     'atan(-x) == -atan(x) (CBMC lemma, kernels under the determinism abstraction); atan2 satisfies the quadrant, sign, '
     'axis and NaN clauses for all |y|,|x| < 2^31 (INT over the contracts of atan and operator/) and, for x != 0, equals exactly '
     'atan(y/x), plus or minus the library pi in the left half-plane (INT lemma for all pairs; reduces its accuracy to C03 and atan). Accuracy (5e-5, 8e-5) '
     'needs the real arctangent and monotonicity is a forall-forall relation over non-linear kernels: both are decided '
     'by native stand-ins (atan: every raw x in [0, 2^34) in the thorough tier, above which atan is the constant pi/2; '
     'a structured subset in the quick tier; atan2: structured/random pairs, bounded). In the THOROUGH tier the arithmetic '
     'half of the kernel is additionally proved: on its whole call domain [0, 7/16) atan<16> differs from the exact '
     'polynomial z - z^3/3 + ... - z^11/11 (128-bit integer evaluation) by at most 1.25 ulp (7 slices, CBMC/kissat, ~4 min).',
     technique='CBMC contracts + kissat (kernel), INT back end (segments, bound, atan2 clauses, atan2 factorisation lemma), UF lemma (oddness); native stand-ins for accuracy and monotonicity',
     assumptions=['glibc atanl/atan2l (long double) as the accuracy oracle of the stand-ins',
                  'atan2 accuracy on the full pair domain rests on the staged paper argument (quotient within 1 ulp by C03, |atan\'| <= 1, atan accuracy) plus the bounded native sample'])
ATAN_K = '_ZN9fixedmath6detail4atanILi16EEEll'
ATAN = '_ZN9fixedmath4atanENS_7fixed_tE'
ATAN2 = '_ZN9fixedmath5atan2ENS_7fixed_tES0_'
ATAN_SUM = ['_ZN9fixedmath6detail8atan_sumILi16ELl27028ELl28672EEEll', '_ZN9fixedmath6detail8atan_sumILi16ELl39472ELl45056EEEll',
            '_ZN9fixedmath6detail8atan_sumILi16ELl57076ELl77824EEEll', '_ZN9fixedmath6detail8atan_sumILi16ELl77429ELl159744EEEll']
K_ATAN_K = (ATAN_K, 'pre_atan_k', 'post_atan_k')
K_ATAN_SUM = [(ATAN_SUM[i], 'pre_atan_sum%d' % (i + 1), 'post_atan_sum%d' % (i + 1)) for i in range(4)]
K_ATAN = (ATAN, 'pre_valid1', 'post_atan')
U('C11', 'c11.atan_k', ATAN_K, 'pre_atan_k', 'post_atan_k', cxx='fixedmath::detail::atan<16>($1)', backends=MULBE, timeout=1800, split=True)
for i in range(4):
    U('C11', 'c11.atan_sum%d' % (i + 1), ATAN_SUM[i], K_ATAN_SUM[i][1], K_ATAN_SUM[i][2], replace=[K_ATAN_K, K_DIV16], cxx=None, **INTQ)
U('C11', 'c11.atan', ATAN, 'pre_valid1', 'post_atan', replace=[K_ATAN_K] + K_ATAN_SUM, cxx='fixedmath::atan($1)', **INTQ)
# deductive accuracy of the atan series kernel against the exact polynomial, sliced over its call domain [0, 7/16) (thorough tier)
for _k, _lo in enumerate(range(0, 28672, 4096)):
    U('C11', 'c11.atan_k.poly.slice%d' % _k, ATAN_K, None, 'post_atan_poly', cxx='fixedmath::detail::atan<16>($1)',
      requires_extra=['$1 >= %d && $1 < %d' % (_lo, _lo + 4096)], backends=MULBE, timeout=1800, tier='thorough',
      note='kernel vs exact polynomial, slice [%d, %d)' % (_lo, _lo + 4096))
U('C11', 'c11.odd', 'lem_c11_odd', 'pre_valid1', None, lemma=True, cxx='lem_c11_odd($1)',
  replace=[(ATAN_K, 'UF:pre_atan_k', 'post_atan_k')] + [(K_ATAN_SUM[i][0], 'UF:' + K_ATAN_SUM[i][1], K_ATAN_SUM[i][2]) for i in range(4)], backends=('sat', 'kissat'), timeout=300)
U('C11', 'c11.atan2_factors', 'lem_c11_atan2_factors', 'pre_c11_atan2', None, lemma=True, cxx='lem_c11_atan2_factors($1,$2)',
  replace=[(ATAN, 'UFR:pre_valid1', 'post_atan'), (DIVF, 'UFR:pre_c01', 'post_div_mul'), I2F_L], **INTQ)
U('C11', 'c11.atan2', ATAN2, 'pre_c11_atan2', 'post_atan2', replace=[K_ATAN, K_DIVF, I2F_L], cxx='fixedmath::atan2($1,$2)', **INTQ)


def c11_scan(tier, seed):
    return _native.run_native('c11_atan_scan', 'c11_atan_scan.cc', 'abacus', [seed, 0 if tier == 'quick' else 1],
                              label='bounded stand-in (not proved): accuracy and monotonicity clauses of C11')


E('C11', c11_scan)

# ----------------------------------------------------------------------------- C12
prop('C12', 'other',
     'Proved for all inputs: the series kernel asin<20> stays within [x, 1.125x] on its call domain (CBMC/kissat); asin '
     'is NaN exactly for |x| > 1, bounded by the library pi/2, zero at zero, of the sign of its argument, and free of '
     'UB under BOTH sqrt algorithms (INT over the kernel and sqrt contracts; abacus: the proved floor-root contract, '
     'std::sqrt: the assumed one-ulp contract); asin(-x) == -asin(x) and acos(x).v == 102943 - asin(x).v with NaN '
     'exactly for |x| > 1 (CBMC lemmas, asin/kernels under the determinism abstraction). The backward-error and '
     'monotonicity clauses need the real arcsine / a forall-forall relation: exhaustive native enumeration of all '
     '131,073 raw x in [-1,1] under both algorithms -- stand-in, not proved. In the THOROUGH tier the arithmetic half of '
     'the kernel is additionally proved: on its whole call domain (multiples of 16 in [0, 0.6 * 2^20]) asin<20> differs from '
     'the exact polynomial x + x^3/6 + 3x^5/40 + 5x^7/112 + 35x^9/1152 + 63x^11/2816 (128-bit integer evaluation) by at most '
     '2.5 units of 2^-20 (39 slices, CBMC/kissat, ~1 min).',
     technique='CBMC contracts + kissat (kernel), INT back end (NaN domain, range, UB under both sqrt contracts), UF lemmas (odd, acos identity); exhaustive native stand-in',
     assumptions=['sqrt_std_math is within one ulp of the real root on [0, 0.2] (assumed contract, std::sqrt correctly rounded; cross-checked by the C13 scan)',
                  'glibc asinl as the oracle of the stand-in'])
ASIN_K = '_ZN9fixedmath6detail4asinILi20EEEll'
ASIN = '_ZN9fixedmath4asinENS_7fixed_tE'
ACOS = '_ZN9fixedmath4acosENS_7fixed_tE'
K_ASIN_K = (ASIN_K, 'pre_asin_k', 'post_asin_k')
K_SQRT_ASIN = (SQRT, 'pre_sqrt_asin', 'post_sqrt_asin')
K_ASIN = (ASIN, 'pre_valid1', 'post_asin')
U('C12', 'c12.asin_k', ASIN_K, 'pre_asin_k', 'post_asin_k', cxx='fixedmath::detail::asin<20>($1)', backends=MULBE, timeout=1800, split=True)
for cfg in ('abacus', 'stdsqrt'):
    U('C12', 'c12.asin.' + cfg, ASIN, 'pre_valid1', 'post_asin', replace=[K_ASIN_K, K_SQRT_ASIN], cfg=cfg, cxx='fixedmath::asin($1)', backends=('sat', 'kissat'), timeout=300)
U('C12', 'c12.sqrt_1ulp.abacus', 'lem_c12_sqrt_contract', 'pre_c12_sqrtc', None, lemma=True, cxx='lem_c12_sqrt_contract($1,$2)', **INTQ)
U('C12', 'c12.sqrt_bound', 'lem_c12_sqrt_bound', 'pre_c12_sqrtb', None, lemma=True, cxx='lem_c12_sqrt_bound($1,$2)', **INTQ)
# deductive accuracy of the asin series kernel against the exact polynomial, sliced over its call domain: the multiples of 16 in
# [0, 0.6 * 2^20] (asin() only ever passes a value << 4) (thorough tier)
ASIN_SHIFT = 14
for _k in range((629152 >> ASIN_SHIFT) + 1):
    _lo, _hi = _k << ASIN_SHIFT, min((_k + 1) << ASIN_SHIFT, 629153)
    U('C12', 'c12.asin_k.poly.slice%02d' % _k, ASIN_K, None, 'post_asin_poly', cxx='fixedmath::detail::asin<20>($1)',
      requires_extra=['($1 >> %d) == %d && $1 < %d && ($1 & 15) == 0' % (ASIN_SHIFT, _k, _hi)], backends=MULBE, timeout=1800, tier='thorough',
      note='kernel vs exact polynomial, slice [%d, %d)' % (_lo, _hi))
U('C12', 'c12.odd', 'lem_c12_odd', 'pre_c12_in', None, lemma=True, cxx='lem_c12_odd($1)', replace=[(ASIN_K, 'UF:pre_asin_k', 'post_asin_k'), (SQRT, 'UF', 'post_sqrt_asin')], backends=('sat', 'kissat'), timeout=300)
U('C12', 'c12.acos', 'lem_c12_acos', 'pre_valid1', None, lemma=True, cxx='lem_c12_acos($1)', replace=[(ASIN, 'UF', 'post_asin')], backends=('sat', 'kissat'), timeout=300)


def c12_scan_abacus(tier, seed):
    return _native.run_native('c12_asin_scan_abacus', 'c12_asin_scan.cc', 'abacus', [], label='exhaustive stand-in (not proved): backward error / monotone, abacus sqrt')


def c12_scan_std(tier, seed):
    return _native.run_native('c12_asin_scan_std', 'c12_asin_scan.cc', 'stdsqrt', [], label='exhaustive stand-in (not proved): backward error / monotone, std::sqrt')


E('C12', c12_scan_abacus)
E('C12', c12_scan_std)

# ----------------------------------------------------------------------------- C14
prop('C14', 'proof',
     'Proved for all |a|,|b| < 2^31 under both sqrt configurations: hypot returns a finite non-negative value, every '
     'shift is valid and uhi*uhi + ulo*ulo never wraps (CBMC with the unsigned-overflow check switched on for this '
     'unit, sqrt replaced by a linear consequence of its one-ulp contract). hypot(a,b) == hypot(b,a) == hypot(|a|,|b|) == '
     'hypot(-a,b) == hypot(a,-b): cut-point lemma -- all five calls reach the point after operand normalisation with the '
     'same (uhi, ulo) (ghost observations compared in the lemma contract, CBMC) and the code after that point reads '
     'neither parameter (dataflow check on the AST), so the results are equal by determinism. The accuracy clause is '
     'stated exactly in integers -- with S = a.v^2 + b.v^2 the real hypotenuse is sqrt(S) raw units, so "within 2 ulp" is '
     '(h-2)^2 <= S <= (h+2)^2 and "within a relative 1.5e-4" is 19997^2 S <= (20000 h)^2 <= 20003^2 S -- and PROVED over '
     'the real code in the INT back end (non-linear integer arithmetic, cvc5/z3): sqrt enters by its one-ulp contract, '
     'the operands are taken as 0 <= b <= a (the general case is the symmetry lemma) and the domain is cut into 48 slices '
     'by the bit length of a.v, which fixes every shift distance; per slice there is one obligation per return statement '
     'and per half of the inequality, a proved value hint for the clz result, and cone-of-influence slicing of the query. '
     'The native scan (random log-uniform pairs, power-of-two boundary pairs, the band that used to wrap; against long '
     'double sqrtl) is kept as an independent cross-check under both algorithms.',
     technique='CBMC contracts + kissat (no wrap, valid shifts, non-NaN, non-negative), cut-point lemma with ghost observations for symmetry; INT back end (NIA, 48 bit-length slices, per-return-path obligations) for the accuracy clause; native scan as cross-check',
     assumptions=['sqrt contract: within one ulp of the real root (for abacus: floor-root contract proved in C13 and lemma c12.sqrt_1ulp.abacus; for std::sqrt: assumed)',
                  'long double sqrtl as the oracle of the cross-check scan'])
HYPOT = '_ZN9fixedmath5hypotENS_7fixed_tES0_'
K_SQRT_HYP = (SQRT, 'pre_sqrt_hyp', 'post_sqrt_hyp')
for cfg in ('abacus', 'stdsqrt'):
    U('C14', 'c14.hypot.' + cfg, HYPOT, 'pre_c14', 'post_hypot', replace=[K_SQRT_HYP], cfg=cfg, cxx='fixedmath::hypot($1,$2)',
      extra_flags=['--unsigned-overflow-check'], ignore_desc=r'overflow on unsigned (-|unary minus|shl)', backends=MULBE, timeout=900, native_post='native_hypot_ok')
# accuracy clause, deductively (spec/c14.hpp): 48 slices by the bit length of a.v, 0 <= b <= a
K_SQRT_HYP_1ULP = (SQRT, 'pre_sqrt_hyp', 'post_sqrt_hyp_1ulp')
U('C14', 'c14.acc.slices_cover', 'lem_c14_slices_cover', 'pre_c14_ordered', None, lemma=True, cxx='lem_c14_slices_cover($1,$2)', backends=('sat', 'kissat'), timeout=300)
U('C14', 'c14.sqrt_contract', 'lem_c14_sqrt_contract', 'pre_c14_sqrtc', None, lemma=True, cxx='lem_c14_sqrt_contract($1,$2)', **INTQ)
for cfg, _tier in (('abacus', 'quick'), ('stdsqrt', 'thorough')):
    for _L in range(48):
        U('C14', 'c14.acc.%s.L%02d' % (cfg, _L), HYPOT, 'pre_c14_acc', 'post_hypot_acc', replace=[K_SQRT_HYP_1ULP], cfg=cfg, engine='int', timeout=300,
          pre_consts=[_L], split_returns=True, post_split=('post_hypot_acc_lo', 'post_hypot_acc_hi'), cxx='fixedmath::hypot($1,$2)', tier=_tier, soft=True,
          note='accuracy clause for 0 <= b <= a, bit length of a.v == %d' % _L)
U('C14', 'c14.sqrt_bound', 'lem_c14_sqrt_bound', 'pre_c14_sqrtb', None, lemma=True, cxx='lem_c14_sqrt_bound($1,$2)', **INTQ)

def hypot_roles(fn_node):
    """cut point of hypot: just before the first top-level `if( U == 0 )` (operands are normalised and ordered there).
    {uhi} is U, {ulo} the other local that is squared in the sum of squares; `cut` is the ordinal of that if statement
    in the translator's numbering (pre-order over non-constexpr if statements)."""
    from vfx.extract import kids
    from vfx.core import Undecided

    def strip(n):
        while n.get('kind') in ('ImplicitCastExpr', 'ParenExpr', 'CXXStaticCastExpr'):
            n = kids(n)[-1]
        if n.get('kind') == 'CallExpr' and kids(n) and strip(kids(n)[0]).get('referencedDecl', {}).get('name') == '__builtin_expect':
            return strip(kids(n)[1])
        return n
    body = [c for c in kids(fn_node) if c.get('kind') == 'CompoundStmt'][0]
    counter = [0]
    found = {}

    def walk(n, top):
        if n.get('kind') == 'IfStmt' and not n.get('isConstexpr'):
            counter[0] += 1
            if top and 'cut' not in found:
                c = strip(kids(n)[0])
                if c.get('kind') == 'BinaryOperator' and c.get('opcode') == '==':
                    a, b = strip(kids(c)[0]), strip(kids(c)[1])
                    if a.get('kind') == 'DeclRefExpr' and a['referencedDecl'].get('kind') == 'VarDecl' and b.get('value') == '0':
                        found['cut'] = counter[0]
                        found['uhi'] = a['referencedDecl']['name']
        for c in kids(n):
            walk(c, False)
    for st in kids(body):
        walk(st, True)
    if 'cut' not in found:
        raise Undecided('hypot: no top-level `if( U == 0 )` found')
    squares = set()

    def sq(n):
        if n.get('kind') == 'BinaryOperator' and n.get('opcode') == '*':
            a, b = strip(kids(n)[0]), strip(kids(n)[1])
            if a.get('kind') == 'DeclRefExpr' and b.get('kind') == 'DeclRefExpr' and a['referencedDecl']['name'] == b['referencedDecl']['name']:
                squares.add(a['referencedDecl']['name'])
        for c in kids(n):
            sq(c)
    sq(body)
    others = sorted(squares - {found['uhi']})
    if len(others) != 1:
        raise Undecided('hypot: cannot identify the smaller operand (squared locals: %s)' % sorted(squares))
    found['ulo'] = others[0]
    return found


def hypot_params(fn_node):
    from vfx.extract import kids
    return [c['name'] for c in kids(fn_node) if c.get('kind') == 'ParmVarDecl']


OBS_PRELUDE = """
unsigned long vf_obs_hi[8]; unsigned long vf_obs_lo[8]; int vf_obs_n;   /* ghost: operands observed at the cut point of hypot */
"""
U('C14', 'c14.symmetry.cut', 'lem_c14_cut', 'pre_c14', None, lemma=True, cxx='lem_c14_cut($1,$2)',
  prelude=OBS_PRELUDE, ghost={(HYPOT, ('before_if', 'ROLE:cut')): 'vf_obs_hi[vf_obs_n] = {uhi}; vf_obs_lo[vf_obs_n] = {ulo}; vf_obs_n = vf_obs_n + 1;'},
  role_binder=hypot_roles, role_fn=HYPOT,
  requires_extra=['vf_obs_n == 0'],
  ensures_extra=['vf_obs_n == 5 && vf_obs_hi[0] == vf_obs_hi[1] && vf_obs_hi[0] == vf_obs_hi[2] && vf_obs_hi[0] == vf_obs_hi[3] && vf_obs_hi[0] == vf_obs_hi[4]'
                 ' && vf_obs_lo[0] == vf_obs_lo[1] && vf_obs_lo[0] == vf_obs_lo[2] && vf_obs_lo[0] == vf_obs_lo[3] && vf_obs_lo[0] == vf_obs_lo[4]'],
  assigns_extra=['vf_obs_n', '__CPROVER_object_whole(vf_obs_hi)', '__CPROVER_object_whole(vf_obs_lo)'],
  cut_check=(HYPOT, 'ROLE:cut', 'PARAMS'),
  replace=[(SQRT, 'UF', 'post_sqrt_hyp')], backends=MULBE, timeout=900, no_canary=False)


def c14_scan_abacus(tier, seed):
    return _native.run_native('c14_hypot_scan_abacus', 'c14_hypot_scan.cc', 'abacus', [seed, 5000000 if tier == 'quick' else 200000000], label='bounded cross-check scan (not a proof; the accuracy clause is proved by the c14.acc units): abacus sqrt')


def c14_scan_std(tier, seed):
    return _native.run_native('c14_hypot_scan_std', 'c14_hypot_scan.cc', 'stdsqrt', [seed, 5000000 if tier == 'quick' else 200000000], label='bounded cross-check scan (not a proof; the accuracy clause is proved by the c14.acc units under the assumed one-ulp contract of std::sqrt): real std::sqrt')


E('C14', c14_scan_abacus)
E('C14', c14_scan_std)

# ----------------------------------------------------------------------------- C20
prop('C20', 'other',
     'Proved for every value of all 8 integral types: angle_to_radians(d) is NaN outside [0,360] and within 2 ulp of '
     'd*pi/180 inside (integer inequality against pi*65536 = 205887.416172, CBMC/kissat); for every integer |d| <= 360 the '
     'radian argument d*phi/180 computed in any integral carrier type or in float equals the one computed from '
     'fixed_t(d) (INT lemmas / CBMC for float), and sin_angle/cos_angle/tan_angle are exactly sin/cos/tan of that '
     'argument (CBMC lemmas, sin/cos/tan under the determinism abstraction) -- together: type independence. The widened '
     'C09/C10 accuracy bounds at the 721 angles need the real functions: exhaustive native stand-in.',
     technique='CBMC contracts + kissat (angle_to_radians), INT/CBMC lemmas (type independence); exhaustive native stand-in for accuracy',
     assumptions=['glibc sinl/cosl/tanl as the oracle of the stand-in'])
UF_TRIG = [(SIN, 'UF', None), (COS, 'UF', None), (TAN, 'UF', None), ('_ZN9fixedmath6detail24fixed_division_by_scalarIivEENS_7fixed_tES2_T_', 'UF', None)]
for t, ct in ITYPES:
    U('C20', 'c20.a2r.' + ct, '_ZN9fixedmath16angle_to_radiansI%svEENS_7fixed_tET_' % t, 'pre_i2f_' + t, 'post_a2r_' + t, cxx='fixedmath::angle_to_radians($1)', backends=MULBE, timeout=1200)
    U('C20', 'c20.same_arg.' + ct, 'lem_c20_same_arg_' + t, 'pre_c20_' + t, None, lemma=True, cxx='lem_c20_same_arg_%s($1)' % t, replace=[(I2F(t), 'pre_i2f_' + t, 'post_i2f_' + t)], **INTQ)
    U('C20', 'c20.forward.' + ct, 'lem_c20_sin_is_sin_of_arg_' + t, 'pre_c20_' + t, None, lemma=True, cxx='lem_c20_sin_is_sin_of_arg_%s($1)' % t, replace=UF_TRIG + [('_ZN9fixedmath6detail21fixed_multiply_scalarI%svEENS_7fixed_tES2_T_' % t, 'UF', None)], backends=MULBE, timeout=900)
U('C20', 'c20.same_arg.float', 'lem_c20_same_arg_f', 'pre_c20_f', None, lemma=True, cxx='lem_c20_same_arg_f($1)', replace=[UF_MULI], backends=MULBE, timeout=1200)
U('C20', 'c20.forward.float', 'lem_c20_sin_is_sin_of_arg_f', 'pre_c20_f', None, lemma=True, cxx='lem_c20_sin_is_sin_of_arg_f($1)', replace=UF_TRIG + [UF_MULI], backends=MULBE, timeout=900)
U('C20', 'c20.forward.fixed_t', 'lem_c20_sin_is_sin_of_arg_x', 'pre_c20_x', None, lemma=True, cxx='lem_c20_sin_is_sin_of_arg_x($1)', replace=UF_TRIG + [UF_MULI], backends=MULBE, timeout=900)


def c20_scan(tier, seed):
    return _native.run_native('c20_angle_scan', 'c20_angle_scan.cc', 'abacus', [], label='exhaustive stand-in (not proved): accuracy clauses of C20')


E('C20', c20_scan)

# ----------------------------------------------------------------------------- C19
prop('C19', 'other',
     'Proved for all inputs: sin_angle_aprox(d) and cos_angle_aprox(d) return the table entry of d mod 360 (normalised '
     'into [0,360]) for every int32 d with the table access in bounds (CBMC), so that their 2-ulp clause reduces to the '
     '361+361 table entries; sqrt_aprox is 0 at 0, NaN below 0 and finite non-negative above, with its table index in '
     'bounds and all shifts valid (CBMC), and its 2% clause -- the integer inequality 2401*X <= 2500*r^2 <= 2601*X with '
     'X = x.v*2^16 -- is PROVED for every raw x in [1, 2^37) (37 units, one per bit length); atan_index_aprox: result '
     'range/UB for every x, and its 1.25 clause for every 0 <= x < 2^31 by the interval certificate (513 threshold pairs '
     'generated per run from glibc tanl/atanl; the unit proves LO[j(x)] <= x <= HI[j(x)]) with std::lower_bound under the '
     'standard\'s contract, whose sortedness precondition is proved over the real table at the call site. For x < 0 the '
     'library applies std::lower_bound to a range that is not partitioned (observation in DESIGN 14), the standard\'s '
     'contract is silent and the result is whatever libstdc++\'s bisection returns: there the same clause is checked for '
     'every |x| < 2^31 under a C model of that bisection (loop unwound with unwinding assertion; labelled BOUNDED, not '
     'counted as proved). Decided by native enumeration (the tabulated functions are transcendental): every one of the '
     '361+361+256+256 table entries against its definition (exhaustive in every tier) and sortedness of both tangent '
     'halves; kept as cross-checks: sin/cos_angle_aprox within 2 ulp (all 2^32 angles in the thorough tier), sqrt_aprox '
     '2% (all raw x in [1,2^37) in the thorough tier), atan_index_aprox within 1.25 (exhaustive for |raw| <= 2^21, '
     'thresholds, windows, random).',
     technique='CBMC contracts (index/bounds/NaN clauses, sqrt_aprox accuracy, atan_index_aprox accuracy by interval certificate); exhaustive native enumeration of table entries; native scans as cross-checks',
     assumptions=['glibc long double libm as the oracle for the table entries, for the 513 certificate thresholds of atan_index_aprox and for the cross-check scans',
                  'std::lower_bound: the standard\'s contract (partition point on a partitioned range) assumed for the external function; on the non-partitioned negative half a C model of libstdc++\'s bisection (bounded unit)'])
LOWER_BOUND_PRELUDE_C19 = """
long *vf_lower_bound_long(long *first, long *last, long val)
__CPROVER_requires(__CPROVER_same_object(first, last) && first <= last)
__CPROVER_ensures(__CPROVER_same_object(__CPROVER_return_value, first) && __CPROVER_POINTER_OFFSET(__CPROVER_return_value) >= __CPROVER_POINTER_OFFSET(first) && __CPROVER_POINTER_OFFSET(__CPROVER_return_value) <= __CPROVER_POINTER_OFFSET(last) && __CPROVER_POINTER_OFFSET(__CPROVER_return_value) % sizeof(long) == 0)
__CPROVER_assigns();
"""
SIN_APROX = '_ZN9fixedmath15sin_angle_aproxEi'
COS_APROX = '_ZN9fixedmath15cos_angle_aproxEi'
SQRT_APROX = '_ZN9fixedmath10sqrt_aproxENS_7fixed_tE'
U('C19', 'c19.sin_aprox', SIN_APROX, 'pre_anyi', 'post_sin_aprox', cxx='fixedmath::sin_angle_aprox($1)', backends=('sat', 'kissat'), timeout=600)
U('C19', 'c19.cos_aprox', COS_APROX, 'pre_anyi', 'post_cos_aprox', cxx='fixedmath::cos_angle_aprox($1)', backends=('sat', 'kissat'), timeout=600)
ATAN_INDEX_C19 = '_ZN9fixedmath16atan_index_aproxENS_7fixed_tE'
U('C19', 'c19.atan_index_aprox', ATAN_INDEX_C19, 'pre_valid1', 'post_atan_index', cxx='fixedmath::atan_index_aprox($1)', prelude=LOWER_BOUND_PRELUDE_C19, replace_raw=['vf_lower_bound_long'], backends=MULBE, timeout=1200)
U('C19', 'c19.sqrt_aprox', SQRT_APROX, 'pre_valid1', 'post_sqrt_aprox', cxx='fixedmath::sqrt_aprox($1)', backends=('sat', 'kissat'), timeout=600)

# accuracy clause of atan_index_aprox.  The function takes 513 values only and atan is monotone, so "within 1.25 of atan(x)*128/pi" is,
# per value j/2, an interval [LO[j], HI[j]] of raw arguments; the two threshold tables are a CERTIFICATE generated on every run by
# native/c19_atan_cert.cc from glibc tanl/atanl (it does not touch the library) and the units prove LO[j(x)] <= x <= HI[j(x)] for EVERY x.
import threading as _threading
_ATAN_CERT = {'lock': _threading.Lock(), 'text': None}


def _atan_cert():
    import subprocess as _sp
    with _ATAN_CERT['lock']:
        if _ATAN_CERT['text'] is None:
            os.makedirs(os.path.join(core.BUILD, 'native'), exist_ok=True)
            exe = os.path.join(core.BUILD, 'native', 'c19_atan_cert.%d' % os.getpid())
            src = os.path.join(core.VERIF, 'native', 'c19_atan_cert.cc')
            try:
                r = _sp.run(['g++', '-O1', '-o', exe, src], capture_output=True, text=True)
                if r.returncode != 0:
                    raise core.Undecided('c19_atan_cert does not build: ' + r.stderr[-300:])
                r = _sp.run([exe], capture_output=True, text=True, timeout=60)
                if r.returncode != 0 or 'static const long VF_ATAN_LO[513]' not in r.stdout or 'static const long VF_ATAN_HI[513]' not in r.stdout:
                    raise core.Undecided('c19_atan_cert failed')
                _ATAN_CERT['text'] = r.stdout
            finally:
                if os.path.exists(exe):
                    os.unlink(exe)
        return _ATAN_CERT['text']


ATAN_ACC_POST = ['__CPROVER_return_value.v % 32768 == 0 && __CPROVER_return_value.v >= -256 * 32768 && __CPROVER_return_value.v <= 256 * 32768',
                 'VF_ATAN_LO[(__CPROVER_return_value.v >> 15) + 256] <= $1.v && $1.v <= VF_ATAN_HI[(__CPROVER_return_value.v >> 15) + 256]']
# (a) x >= 0, unbounded: std::lower_bound enters by the STANDARD's contract ([lower.bound]: for a range partitioned with respect to e < value
#     the result is the partition point), assumed for the external function; its precondition -- the 128 table entries it is applied to
#     are strictly increasing -- is an obligation at the call site, proved over the real table.
def _lb_std_prelude():
    srt = ' && '.join('first[%d] < first[%d]' % (i, i + 1) for i in range(127))
    return _atan_cert() + """
/* std::lower_bound, ASSUMED: the standard's contract on a sorted 128-element range */
long *vf_lower_bound_long(long *first, long *last, long val)
__CPROVER_requires(__CPROVER_same_object(first, last) && __CPROVER_POINTER_OFFSET(last) == __CPROVER_POINTER_OFFSET(first) + 128 * sizeof(long) && __CPROVER_r_ok(first, 128 * sizeof(long)))
__CPROVER_requires(%s)
__CPROVER_ensures(__CPROVER_same_object(__CPROVER_return_value, first) && __CPROVER_POINTER_OFFSET(__CPROVER_return_value) >= __CPROVER_POINTER_OFFSET(first) && __CPROVER_POINTER_OFFSET(__CPROVER_return_value) <= __CPROVER_POINTER_OFFSET(last) && __CPROVER_POINTER_OFFSET(__CPROVER_return_value) %% sizeof(long) == 0)
__CPROVER_ensures(__CPROVER_return_value == first || __CPROVER_return_value[-1] < val)
__CPROVER_ensures(__CPROVER_return_value == last || !(__CPROVER_return_value[0] < val))
__CPROVER_assigns();
""" % srt


U('C19', 'c19.atan_index.acc.nonneg', ATAN_INDEX_C19, 'pre_valid1', None, cxx='fixedmath::atan_index_aprox($1)', prelude=_lb_std_prelude, replace_raw=['vf_lower_bound_long'],
  requires_extra=['$1.v >= 0 && $1.v < (1l << 47)'], ensures_extra=ATAN_ACC_POST, backends=MULBE, timeout=1200, native_post='native_atan_index_ok',
  note='accuracy clause for every 0 <= x < 2^31: certificate intervals + the standard contract of std::lower_bound (sortedness of the table half proved at the call site)')


# (b) every x, BOUNDED: the negative branch applies std::lower_bound to tan_table__[128..256), which is NOT partitioned for most negative
#     arguments (DESIGN section 14, observation), so the standard's contract says nothing there and the result is whatever libstdc++'s
#     bisection computes.  A C rendering of libstdc++'s std::__lower_bound (bits/stl_algobase.h: len/half bisection) stands in for it and
#     its loop is unwound 9 times with the unwinding assertion (a 128-element range needs at most 8 iterations).  Labelled bounded.
def _lb_model_prelude():
    return _atan_cert() + """
/* MODEL of libstdc++ std::__lower_bound (bits/stl_algobase.h), a dependency outside the repository */
long *vf_lower_bound_long(long *first, long *last, long val)
{
  long len = last - first;
  while (len > 0)
  {
    long half = len >> 1;
    long *middle = first + half;
    if (*middle < val) { first = middle + 1; len = len - half - 1; }
    else len = half;
  }
  return first;
}
"""


U('C19', 'c19.atan_index.acc.model', ATAN_INDEX_C19, 'pre_valid1', None, cxx='fixedmath::atan_index_aprox($1)', prelude=_lb_model_prelude,
  requires_extra=['$1.v > -(1l << 47) && $1.v < (1l << 47)'], ensures_extra=ATAN_ACC_POST, unwind=9, backends=MULBE, timeout=1200, native_post='native_atan_index_ok',
  bounded='std::lower_bound replaced by a C model of libstdc++\'s bisection, loop unwound 9 times with unwinding assertion',
  note='BOUNDED: accuracy clause for every |x| < 2^31 (both branches) under a model of libstdc++ lower_bound')
# the 2% clause of sqrt_aprox is an integer inequality (spec/c19.hpp): proved for every x in [2^-16, 2^21), one unit per bit length of x.v
for _L in range(1, 38):
    U('C19', 'c19.sqrt_aprox.acc.len%02d' % _L, SQRT_APROX, 'pre_sqrt_aprox_acc', 'post_sqrt_aprox_acc', cxx='fixedmath::sqrt_aprox($1)',
      requires_extra=['($1.v >> %d) == 1' % (_L - 1)], backends=('sat', 'kissat'), timeout=900,
      note='2%% relative accuracy, 2^%d <= x.v < 2^%d' % (_L - 1, _L))


def c19_scan(tier, seed):
    return _native.run_native('c19_tables', 'c19_tables.cc', 'abacus', [seed, 0 if tier == 'quick' else 1], timeout=7200,
                              label='native enumeration (stand-in, not proved): table entries exhaustive; function accuracy ' + ('bounded' if tier == 'quick' else 'exhaustive where stated'))


E('C19', c19_scan)

# ----------------------------------------------------------------------------- C07
prop('C07', 'proof',
     'Every public entry point that is inside the extraction subset is put under a contract whose precondition is the '
     'property\'s domain (every fixed_t argument finite or +-NaN, i.e. any raw value but INT64_MIN; any value of an '
     'integral or floating argument; shift counts <= 63) and whose content is the automatically generated obligations '
     'of its body and of everything inlined into it: signed overflow of + - * unary-minus <<, shift distance and '
     'negative left operand, division by zero and INT64_MIN/-1, float->integer conversion in range, array bounds, '
     'clz(0). Series kernels, range reductions and sqrt enter through contracts proved in C09-C13 on the callers\' '
     'domains (their preconditions are obligations here). Mixed-type operator instantiations are compositions of a '
     'conversion (verified on every value) and a kernel (verified on every valid fixed_t); their forwarding layers '
     'contain no arithmetic and are verified under C16.',
     not_decided=['operator""_fix(long double): CBMC has no sound 80-bit long double model for the narrowing cast; the double conversion it forwards to is verified on every double',
                  'iostream operator<< is I/O, not arithmetic: excluded'],
     assumptions=['std::sqrt: assumed contract (C13)', 'std::lower_bound (in atan_index_aprox): external, assumed to return an iterator inside [first, last] (weaker than the standard\'s contract); std::begin/next/distance over std::array are translated as the pointer operations they are'])
UB = dict(ub_only=True)
HEAVY = dict(ub_only=True, backends=MULBE, timeout=1200)
# comparison, bit and unary operators, floor/ceil, shifts
for nm, mg, op in (('eq', 'eq', '=='), ('ne', 'ne', '!='), ('lt', 'lt', '<'), ('le', 'le', '<='), ('gt', 'gt', '>'), ('ge', 'ge', '>=')):
    U('C07', 'c07.cmp.' + nm, '_ZN9fixedmath%sENS_7fixed_tES0_' % mg, None, None, cxx='($1 %s $2)' % op, **UB)
for nm, fn, cx in (('isnan', ISNAN, 'fixedmath::isnan($1)'), ('neg', NEG, '(-$1)'), ('abs', ABS, 'fixedmath::abs($1)'), ('floor', FLOOR, 'fixedmath::floor($1)'), ('ceil', CEIL, 'fixedmath::ceil($1)'),
                   ('shr', SHR, '($1 >> $2)'), ('shl', SHL, '($1 << $2)'), ('and', AND, '($1 & $2)')):
    U('C07', 'c07.' + nm, fn, None, None, cxx=cx, **UB)
# arithmetic kernels and operators on (fixed_t, fixed_t) incl. compound assignment
for nm, fn, cx in (('add.kernel', ADDI, 'fixedmath::detail::fixed_additioni($1,$2)'), ('sub.kernel', SUBI, 'fixedmath::detail::fixed_substracti($1,$2)'), ('add.op', OP_ADD_FF, '($1 + $2)'),
                   ('sub.op', OP_SUB_FF, '($1 - $2)'), ('add.assign', OP_ADDA_F, '($1 += $2)'), ('sub.assign', OP_SUBA_F, '($1 -= $2)')):
    U('C07', 'c07.' + nm, fn, None, None, cxx=cx, **UB)
for nm, fn, cx in (('mul.kernel', MULI, 'fixedmath::detail::fixed_multiplyi($1,$2)'), ('mul.op', '_ZN9fixedmathmlINS_7fixed_tES1_vEEDaT_T0_', '($1 * $2)'), ('mul.assign', '_ZN9fixedmathmLINS_7fixed_tEvEERS1_S2_T_', '($1 *= $2)'),
                   ('div.kernel', DIVF, 'fixedmath::detail::fixed_divisionf($1,$2)'), ('div.op', '_ZN9fixedmathdvINS_7fixed_tES1_vEEDaT_T0_', '($1 / $2)'), ('div.assign', '_ZN9fixedmathdVINS_7fixed_tEvEERS1_S2_T_', '($1 /= $2)')):
    U('C07', 'c07.' + nm, fn, None, None, cxx=cx, **HEAVY)
for t, ct in ITYPES:
    U('C07', 'c07.muls.' + ct, '_ZN9fixedmath6detail21fixed_multiply_scalarI%svEENS_7fixed_tES2_T_' % t, None, None, cxx='fixedmath::detail::fixed_multiply_scalar($1,$2)', **HEAVY)
    U('C07', 'c07.divs.' + ct, '_ZN9fixedmath6detail24fixed_division_by_scalarI%svEENS_7fixed_tES2_T_' % t, None, None, cxx='fixedmath::detail::fixed_division_by_scalar($1,$2)', **HEAVY)
    U('C07', 'c07.op.mul.f_' + ct, '_ZN9fixedmathmlINS_7fixed_tE%svEEDaT_T0_' % t, None, None, cxx='($1 * $2)', **HEAVY)
    U('C07', 'c07.op.mul.%s_f' % ct, '_ZN9fixedmathmlI%sNS_7fixed_tEvEEDaT_T0_' % t, None, None, cxx='($1 * $2)', **HEAVY)
    U('C07', 'c07.op.div.f_' + ct, '_ZN9fixedmathdvINS_7fixed_tE%svEEDaT_T0_' % t, None, None, cxx='($1 / $2)', **HEAVY)
    U('C07', 'c07.i2f.' + ct, I2F(t), None, None, cxx='fixedmath::integral_to_fixed<%s>($1)' % ct, **UB)
    U('C07', 'c07.f2i.' + ct, F2I(t), None, None, cxx='fixedmath::fixed_to_integral<%s>($1)' % ct, **UB)
    U('C07', 'c07.a2r.' + ct, '_ZN9fixedmath16angle_to_radiansI%svEENS_7fixed_tET_' % t, None, None, cxx='fixedmath::angle_to_radians($1)', **HEAVY)
for t in ('d', 'f'):
    U('C07', 'c07.fp2f.' + t, FP2F(t), None, None, cxx='fixedmath::floating_point_to_fixed($1)', ub_only=True, backends=('sat', 'kissat'), timeout=600)
    U('C07', 'c07.f2fp.' + t, F2FP(t), None, None, cxx='fixedmath::fixed_to_floating_point<%s>($1)' % {'d': 'double', 'f': 'float'}[t], **UB)
U('C07', 'c07.literal.int', '_ZN9fixedmathli4_fixEy', None, None, cxx='fixedmath::operator""_fix($1)', **UB)
# sqrt / hypot under both configurations
U('C07', 'c07.pwr4', PWR4, None, None, cxx='fixedmath::detail::highest_pwr4_clz($1)', **UB)
U('C07', 'c07.sqrt_abacus', SQRT_ABACUS, None, None, cxx='fixedmath::detail::sqrt_abacus($1)', prelude=SQ_PRELUDE, loop_contracts={1: SQRT_LOOP}, ghost=SQRT_GHOST, role_binder=sqrt_roles,
  replace_raw=['vf_lemma_sq_step', 'vf_lemma_sq_zero'], backends=('kissat', 'z3'), timeout=600, split=True, ub_only=True,
  expect_props=['loop_invariant_base', 'loop_invariant_step', 'loop_decreases'])
U('C07', 'c07.sqrt_std', SQRT_STD, None, None, cxx='fixedmath::detail::sqrt_std_math($1)', prelude=VF_SQRT_PRELUDE, replace_raw=['vf_sqrt'], ub_only=True, backends=('sat', 'kissat'), timeout=300)
for cfg in ('abacus', 'stdsqrt'):
    U('C07', 'c07.sqrt.' + cfg, SQRT, None, None, cxx=None, cfg=cfg, ub_only=True,
      replace=[(SQRT_ABACUS, 'pre_valid1', 'post_any1')] if cfg == 'abacus' else [(SQRT_STD, 'pre_valid1', 'post_any1')])
    U('C07', 'c07.hypot.' + cfg, HYPOT, None, None, cxx=None, cfg=cfg, replace=[(SQRT, 'pre_sqrt_hyp', 'post_sqrt_hyp')], **HEAVY)
# trigonometric functions: kernels / range reductions by the contracts proved in C09-C12
U('C07', 'c07.sin_range', SIN_RANGE, None, None, cxx='fixedmath::detail::sin_range($1)', **HEAVY)
U('C07', 'c07.sin', SIN, None, None, cxx='fixedmath::sin($1)', replace=[K_SIN_RANGE], ub_only=True, backends=MULBE, timeout=900)
U('C07', 'c07.cos', COS, None, None, cxx='fixedmath::cos($1)', replace=[(SIN, 'pre_valid1', 'post_unit_interval')], **HEAVY)
U('C07', 'c07.tan', TAN, 'pre_valid1', 'post_tan', replace=[K_TAN_RANGE, K_TAN_K, K_DIV16], cxx='fixedmath::tan($1)', **INTQ)
U('C07', 'c07.tan_k', TAN_K, 'pre_tan_k', 'post_tan_k', cxx=None, backends=MULBE, timeout=1800)
U('C07', 'c07.atan_k', ATAN_K, 'pre_atan_k', 'post_atan_k', cxx=None, backends=MULBE, timeout=1800)
U('C07', 'c07.asin_k', ASIN_K, 'pre_asin_k', 'post_asin_k', cxx=None, backends=MULBE, timeout=1800)
for i in range(4):
    U('C07', 'c07.atan_sum%d' % (i + 1), ATAN_SUM[i], K_ATAN_SUM[i][1], K_ATAN_SUM[i][2], replace=[K_ATAN_K, K_DIV16], cxx=None, **INTQ)
U('C07', 'c07.atan', ATAN, 'pre_valid1', 'post_atan', replace=[K_ATAN_K] + K_ATAN_SUM, cxx='fixedmath::atan($1)', **INTQ)
U('C07', 'c07.atan2', ATAN2, None, None, cxx='fixedmath::atan2($1,$2)', replace=[K_ATAN], **HEAVY)
for cfg in ('abacus', 'stdsqrt'):
    U('C07', 'c07.asin.' + cfg, ASIN, 'pre_valid1', 'post_asin', replace=[K_ASIN_K, K_SQRT_ASIN], cfg=cfg, cxx='fixedmath::asin($1)', backends=('sat', 'kissat'), timeout=300)
U('C07', 'c07.acos', ACOS, None, None, cxx='fixedmath::acos($1)', replace=[K_ASIN], **HEAVY)
K_SIN_ANY = (SIN, 'pre_valid1', 'post_any1')
K_COS_ANY = (COS, 'pre_valid1', 'post_any1')
K_TAN_ANY = (TAN, 'pre_valid1', 'post_any1')
for t, ct in ITYPES + [('f', 'float'), ('NS_7fixed_tE', 'fixed_t')]:
    sfx = 'EES1_T_' if ct == 'fixed_t' else 'EENS_7fixed_tET_'
    for fnm, k in (('sin', K_SIN_ANY), ('cos', K_COS_ANY), ('tan', K_TAN_ANY)):
        U('C07', 'c07.%s_angle.%s' % (fnm, ct), '_ZN9fixedmath9%s_angleI%s%s' % (fnm, t, sfx), None, None, cxx='fixedmath::%s_angle($1)' % fnm, replace=[k], **HEAVY)
# compiled table functions
LOWER_BOUND_PRELUDE = """
/* std::lower_bound over a table: external, ASSUMED contract (weaker than the standard's): the result lies in [first, last] */
long *vf_lower_bound_long(long *first, long *last, long val)
__CPROVER_requires(__CPROVER_same_object(first, last) && first <= last)
__CPROVER_ensures(__CPROVER_same_object(__CPROVER_return_value, first) && __CPROVER_POINTER_OFFSET(__CPROVER_return_value) >= __CPROVER_POINTER_OFFSET(first) && __CPROVER_POINTER_OFFSET(__CPROVER_return_value) <= __CPROVER_POINTER_OFFSET(last) && __CPROVER_POINTER_OFFSET(__CPROVER_return_value) % sizeof(long) == 0)
__CPROVER_assigns();
"""
ATAN_INDEX = '_ZN9fixedmath16atan_index_aproxENS_7fixed_tE'
U('C07', 'c07.atan_index_aprox', ATAN_INDEX, None, None, cxx='fixedmath::atan_index_aprox($1)', prelude=LOWER_BOUND_PRELUDE, replace_raw=['vf_lower_bound_long'], **HEAVY)
U('C07', 'c07.atan_aprox', '_ZN9fixedmath10atan_aproxENS_7fixed_tE', None, None, cxx='fixedmath::atan_aprox($1)', prelude=LOWER_BOUND_PRELUDE, replace_raw=['vf_lower_bound_long'], **HEAVY)
U('C07', 'c07.sin_angle_aprox', SIN_APROX, None, None, cxx='fixedmath::sin_angle_aprox($1)', ub_only=True, backends=('sat', 'kissat'), timeout=600)
U('C07', 'c07.cos_angle_aprox', COS_APROX, None, None, cxx='fixedmath::cos_angle_aprox($1)', ub_only=True, backends=('sat', 'kissat'), timeout=600)
U('C07', 'c07.sqrt_aprox', SQRT_APROX, None, None, cxx='fixedmath::sqrt_aprox($1)', **UB)
U('C07', 'c07.hypot_aprox', '_ZN9fixedmath11hypot_aproxENS_7fixed_tES0_', None, None, cxx='fixedmath::hypot_aprox($1,$2)', **HEAVY)

# ----------------------------------------------------------------------------- C08
prop('C08', 'other',
     'Reduction to source-level facts that ARE proved: (1) bit-identical results across compilers / optimisation levels / '
     'standards / constant evaluation follow from C07 (no undefined behaviour on the whole valid domain, so every '
     'conforming evaluation yields the same value), from the absence of evaluation-order dependence (the extractor '
     'reports every call argument with a side effect: none), and from the configuration-dependent source text being '
     'equivalent: the C++17 fall-backs cxx20::cmp_* and cxx20::countl_zero are proved equal to the ISO specification '
     'of the std:: functions that replace them from C++20 on (all instantiations the library uses); (2) a call that '
     'returns at run time is UB-free (C07, abacus configuration) and therefore a constant expression provided its '
     'callees are constexpr -- checked by compiling a battery of constexpr initialisers with both compilers under '
     'c++17/20/2b; (3) the two sqrt algorithms differ by at most one ulp: INT lemma over the floor-root contract '
     '(proved) and the one-ulp contract of the std::sqrt path (assumed). What a particular compiler binary emits cannot '
     'be decided deductively; a differential battery (2 compilers x 3-4 levels x 3 standards, identical digests, '
     'constexpr == run time) is the labelled stand-in.',
     technique='reduction to C07 + contracts on the configuration-dependent fall-backs + INT lemma; differential compile/run battery as stand-in',
     assumptions=['GCC and Clang implement ISO C++ and IEEE-754 faithfully for programs without undefined behaviour', '-ffp-contract=off / no x87: double arithmetic of the double-operand operators is evaluated in binary64',
                  'sqrt_std_math within one ulp (assumed contract of std::sqrt)'])
U('C08', 'c08.sqrt_algos_within_1ulp', 'lem_c08_sqrt_algos', 'pre_c08_sqrt_algos', None, lemma=True, cxx='lem_c08_sqrt_algos($1,$2,$3)', **INTQ)


def _c08_dynamic():
    from vfx import core
    _UNITS['C08_dyn_done'] = True
    ast = core.get_ast('abacus')
    import re
    for mg, n in ast.fn_def_by_mangled.items():
        q = ast.qualname.get(n['id'], '')
        if q != 'cxx20':
            continue
        name = n.get('name')
        ops = {'cmp_less': '<', 'cmp_greater': '>', 'cmp_less_equal': '<=', 'cmp_greater_equal': '>=', 'cmp_equal': '==', 'cmp_not_equal': '!='}
        if name in ops:
            U('C08', 'c08.fallback.%s.%s' % (name, mg[-12:]), mg, None, None, cxx=None,
              ensures_extra=['__CPROVER_return_value == (((__int128)$1) %s ((__int128)$2))' % ops[name]])
        elif name == 'countl_zero':
            bits = {'h': 8, 't': 16, 'j': 32, 'm': 64}[re.search(r'countl_zeroI(.)E', mg).group(1)]
            U('C08', 'c08.fallback.countl_zero.%d' % bits, mg, None, None, cxx=None,
              ensures_extra=['$1 == 0 ? __CPROVER_return_value == %d : (__CPROVER_return_value >= 0 && __CPROVER_return_value < %d && ((unsigned long)$1 >> (%d - __CPROVER_return_value)) == 1ul)' % (bits, bits, bits - 1)])


def c08_battery(tier, seed):
    from vfx import c08
    return c08.run(tier, seed)


E('C08', c08_battery)


def c08_sqrt_algos(tier, seed):
    r = c13_scan(tier, seed)     # includes: |sqrt_abacus(x) - sqrt_std_math(x)| <= 1 ulp on the structured/random set
    r['name'] = 'c08_sqrt_algorithms_scan'
    return r


E('C08', c08_sqrt_algos)


# ----------------------------------------------------------------------------- translation-validation guard
def _mk_smoke(pid):
    def smoke(tier, seed):
        from vfx import smoke as _smoke
        return _smoke.smoke_property(pid, tier, seed)
    smoke.__name__ = 'smoke_' + pid
    return smoke


for _pid in list(PROPS):
    E(_pid, _mk_smoke(_pid))

NOT_APPLICABLE = {}
