"""
spec/bind.py -- which function of /repo carries which contract (DESIGN.md 3.2).

Functions are named by their Itanium mangled name (stable under any edit of a body; a
changed signature makes the unit unbound -> exit 2, never a verdict). Contract predicates
are the extern-"C" functions of spec/*.hpp.
"""
from vfx.core import Unit

FX = 'N9fixedmath7fixed_tE'   # mangled fixedmath::fixed_t

# ----------------------------------------------------------------------------- names
ADDI = '_ZN9fixedmath6detail15fixed_additioniENS_7fixed_tES1_'
SUBI = '_ZN9fixedmath6detail16fixed_substractiENS_7fixed_tES1_'
OP_ADD_FF = '_ZN9fixedmathplINS_7fixed_tES1_vEEDaT_T0_'
OP_SUB_FF = '_ZN9fixedmathmiINS_7fixed_tES1_vEEDaT_T0_'
OP_ADDA_F = '_ZN9fixedmathpLINS_7fixed_tEvEERS1_S2_T_'
OP_SUBA_F = '_ZN9fixedmathmIINS_7fixed_tEvEERS1_S2_T_'

PROPS = {}
_UNITS = {}
_EXTRAS = {}


def units(pid):
    return _UNITS.get(pid, [])


def extras(pid, tier):
    return [f for (f, t) in _EXTRAS.get(pid, []) if tier == 'thorough' or t == 'quick']


def prop(pid, level, explanation, **kw):
    PROPS[pid] = dict(level=level, explanation=explanation, **kw)
    _UNITS.setdefault(pid, [])
    _EXTRAS.setdefault(pid, [])


def U(pid, *a, **kw):
    u = Unit(*a, **kw)
    _UNITS[pid].append(u)
    return u


# ----------------------------------------------------------------------------- C01
prop('C01', 'proof',
     'Both kernels (fixed_additioni, fixed_substracti) are verified against the exact 128-bit sum/difference '
     '(exact in [lowest,max], NaN otherwise) for all 2^128 finite operand pairs, together with every '
     'undefined-behaviour obligation of their bodies; operator+, operator-, operator+= and operator-= on '
     '(fixed_t, fixed_t) are then verified against the same postcondition with the kernel call replaced by the '
     'kernel contract (forwarding layers inlined). A UB-free deterministic body has one result under every '
     'conforming compilation, which is the source-level content of the "however compiled" sentence.',
     assumptions=['GCC/Clang at -O0..-O3 implement ISO C++ faithfully for programs without undefined behaviour '
                  '(the inlined/out-of-line and optimisation-level clause is reduced to UB-freedom, not tested per binary)'])
U('C01', 'c01.add.kernel', ADDI, 'pre_c01', 'post_add', cxx='fixedmath::detail::fixed_additioni($1,$2)')
U('C01', 'c01.sub.kernel', SUBI, 'pre_c01', 'post_sub', cxx='fixedmath::detail::fixed_substracti($1,$2)')
U('C01', 'c01.add.op', OP_ADD_FF, 'pre_c01', 'post_add', replace=[(ADDI, 'pre_c01', 'post_add')], cxx='($1 + $2)')
U('C01', 'c01.sub.op', OP_SUB_FF, 'pre_c01', 'post_sub', replace=[(SUBI, 'pre_c01', 'post_sub')], cxx='($1 - $2)')
U('C01', 'c01.add.assign', OP_ADDA_F, 'pre_c01', 'post_add', replace=[(ADDI, 'pre_c01', 'post_add')], cxx='($1 += $2)')
U('C01', 'c01.sub.assign', OP_SUBA_F, 'pre_c01', 'post_sub', replace=[(SUBI, 'pre_c01', 'post_sub')], cxx='($1 -= $2)')

NOT_APPLICABLE = {}
