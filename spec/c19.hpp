#pragma once
#include "common.hpp"
// C19: lookup-table approximations. Index contracts here; table-entry faithfulness and the accuracy clauses are
// checked by native enumeration (native/c19_*.cc).
namespace vfspec {
using namespace fixedmath;
extern "C" {
constexpr bool pre_anyi(int) { return true; }
constexpr int vf_deg_index(int d) { return (d >= 0 && d <= 360) ? d : ((d % 360) + 360) % 360; }   // d mod 360, 360 kept as is
constexpr bool pre_tab361(uint16_t i) { return i <= 360; }
inline bool post_sin_aprox(int d, fixed_t r) { return r == sin_angle_tab(uint16_t(vf_deg_index(d))); }
inline bool post_cos_aprox(int d, fixed_t r) { return r == cos_angle_tab(uint16_t(vf_deg_index(d))); }
// atan_index_aprox returns a multiple of 0.5 in [-128, 128] (index units of pi/128)
constexpr bool post_atan_index(fixed_t, fixed_t r) { return r.v % 32768 == 0 && r.v >= -128 * 65536 && r.v <= 128 * 65536; }
// accuracy clause of sqrt_aprox, exactly, in integers: with X = x.v * 2^16 (so that the real root of x is sqrt(X) / 2^16) the claim
// |r - sqrt(X)| <= 0.02 * sqrt(X) is 0.98^2 * X <= r^2 <= 1.02^2 * X, i.e. 2401 * X <= 2500 * r^2 <= 2601 * X -- no real function needed.
constexpr bool pre_sqrt_aprox_acc(fixed_t x) { return x.v >= 1 && x.v < (1l << 37); }
constexpr bool post_sqrt_aprox_acc(fixed_t x, fixed_t r)
  { if( r.v < 0 || r.v >= (1l << 28) ) return false;
    uwide const X = uwide(static_cast<unsigned long>(x.v)) << 16, R2 = uwide(static_cast<unsigned long>(r.v) * static_cast<unsigned long>(r.v));
    return 2401 * X <= 2500 * R2 && 2500 * R2 <= 2601 * X; }
constexpr bool post_sqrt_aprox(fixed_t x, fixed_t r) { return x.v < 0 ? vf_isnan(r) : x.v == 0 ? r.v == 0 : (r.v >= 0 && vf_finite(r)); }
}
}
