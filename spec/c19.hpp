#pragma once
#include "common.hpp"
// C19: lookup-table approximations. Index contracts here; table-entry faithfulness and the accuracy clauses are
// checked by native enumeration (native/c19_*.cc).
namespace vfspec {
using namespace fixedmath;
extern "C" {
constexpr bool pre_anyi(int) { return true; }
constexpr int vf_deg_index(int d) { return (d >= 0 && d <= 360) ? d : ((d % 360) + 360) % 360; }   // d mod 360, 360 kept as is
constexpr bool pre_tab361(uint16_t i) { return i <= 360; }
inline bool post_sin_aprox(int d, fixed_t r) { return r == sin_angle_tab(uint16_t(vf_deg_index(d))); }
inline bool post_cos_aprox(int d, fixed_t r) { return r == cos_angle_tab(uint16_t(vf_deg_index(d))); }
// atan_index_aprox returns a multiple of 0.5 in [-128, 128] (index units of pi/128)
constexpr bool post_atan_index(fixed_t, fixed_t r) { return r.v % 32768 == 0 && r.v >= -128 * 65536 && r.v <= 128 * 65536; }
constexpr bool post_sqrt_aprox(fixed_t x, fixed_t r) { return x.v < 0 ? vf_isnan(r) : x.v == 0 ? r.v == 0 : (r.v >= 0 && vf_finite(r)); }
}
}
