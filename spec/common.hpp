// Common vocabulary for all contracts. Parsed by clang together with the library and
// extracted to C by the same extractor as the library code (vfx/extract.py).
#pragma once
#include <fixedmath/fixed_math.hpp>

namespace vfspec {
using fixedmath::fixed_t;
using wide = __int128;
using uwide = unsigned __int128;

inline constexpr long MAXV = 0x7FFFFFFFFFFFFFFEll;   // raw of numeric_limits<fixed_t>::max()
inline constexpr long NANV = 0x7FFFFFFFFFFFFFFFll;   // raw of quiet_NaN()

extern "C" {
constexpr bool vf_finite(fixed_t x) { return x.v >= -MAXV && x.v <= MAXV; }
constexpr bool vf_isnan(fixed_t x)  { return x.v == NANV || x.v == -NANV; }
constexpr bool vf_valid(fixed_t x)  { return x.v >= -NANV; }  // finite or +-NaN: everything but INT64_MIN
constexpr bool post_any1(fixed_t, fixed_t) { return true; }
void vf_require(bool);
void vf_ensure(bool);
}
}
