// Common vocabulary for all contracts. Parsed by clang together with the library and
// extracted to C by the same extractor as the library code (vfx/extract.py).
#pragma once
#include <fixedmath/fixed_math.hpp>

namespace vfspec {
using fixedmath::fixed_t;
using wide = __int128;
using uwide = unsigned __int128;

inline constexpr long MAXV = 0x7FFFFFFFFFFFFFFEll;   // raw of numeric_limits<fixed_t>::max()
inline constexpr long NANV = 0x7FFFFFFFFFFFFFFFll;   // raw of quiet_NaN()

extern "C" {
constexpr bool vf_finite(fixed_t x) { return x.v >= -MAXV && x.v <= MAXV; }
constexpr bool vf_isnan(fixed_t x)  { return x.v == NANV || x.v == -NANV; }
constexpr bool vf_valid(fixed_t x)  { return x.v >= -NANV; }  // finite or +-NaN: everything but INT64_MIN
constexpr bool post_any1(fixed_t, fixed_t) { return true; }
void vf_require(bool);
void vf_ensure(bool);
// self-check of the INT back end (unit c02.int_selfcheck.outparam): a reference out-parameter written before an early return must stay
// visible to the caller -- the shape of the portable checked_multiply
constexpr bool pre_anyl(long) { return true; }
}
constexpr bool vf_out_early(long a, long& out) { if( a == 0 ) { out = 7; return true; } out = a; return false; }
extern "C" {
constexpr bool lem_int_outparam(long a) { long r = 1; bool const b = vf_out_early(a, r); return a == 0 ? (b && r == 7) : (!b && r == a); }
}
}
