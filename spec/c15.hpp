#pragma once
#include "common.hpp"
// C15: for finite x with |x| < 2^47-1: floor/ceil integer valued, floor(x) <= x < floor(x)+1,
// ceil(x)-1 < x <= ceil(x), identity on integers, ceil(x) == -floor(-x).
namespace vfspec {
using namespace fixedmath;
extern "C" {
constexpr bool pre_c15(fixed_t x) { return x.v > -((1ll<<47)-1)*65536 && x.v < ((1ll<<47)-1)*65536; }
constexpr bool post_floor(fixed_t x, fixed_t r)
  { return r.v % 65536 == 0 && wide(r.v) <= wide(x.v) && wide(x.v) < wide(r.v) + 65536 && (x.v % 65536 != 0 || r.v == x.v); }
constexpr bool post_ceil(fixed_t x, fixed_t r)
  { return r.v % 65536 == 0 && wide(r.v) - 65536 < wide(x.v) && wide(x.v) <= wide(r.v) && (x.v % 65536 != 0 || r.v == x.v); }
constexpr bool lem_c15_ceil_floor(fixed_t x) { return ceil(x) == -floor(-x); }
}
}
namespace vfspec { inline void inst_c15(fixed_t a) { (void)floor(a); (void)ceil(a); } }
