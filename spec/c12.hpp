#pragma once
#include "common.hpp"
#include "c10.hpp"
#include "c13.hpp"
// C12: asin/acos NaN exactly when |x| > 1; backward error (x' within 2 ulp, 4 ulp), odd, non-decreasing;
// acos(x) within 1 ulp of pi/2 - asin(x).
namespace vfspec {
using namespace fixedmath;
extern "C" {
// series kernel asin<20> on its call domain [0, 0.6] (prec 20)
constexpr bool pre_asin_k(long x) { return x >= 0 && x <= 700000; }     // call sites need [0, 629152]
constexpr bool post_asin_k(long x, long r) { return r >= x && r <= x + x / 8 && (x != 0 || r == 0); }
// sqrt as asin uses it: argument in [0, 0.2]; either algorithm is within one ulp of the real root
constexpr bool pre_sqrt_asin(fixed_t x) { return x.v >= 0 && x.v <= 13107; }
constexpr bool post_sqrt_1ulp(fixed_t x, fixed_t r)
  { wide N = wide(x.v) * 65536, q = wide(r.v); return q >= 0 && (q == 0 || (q - 1) * (q - 1) < N) && N < (q + 1) * (q + 1); }
// linear consequence used by asin: on [0, 0.2] the root is at most 0.4473 (29310 raw)
constexpr bool post_sqrt_asin(fixed_t, fixed_t r) { return r.v >= 0 && r.v <= 29310; }
constexpr bool pre_c12_sqrtb(fixed_t x, fixed_t r) { return pre_sqrt_asin(x) && post_sqrt_1ulp(x, r); }
constexpr bool lem_c12_sqrt_bound(fixed_t x, fixed_t r) { return post_sqrt_asin(x, r); }
constexpr bool pre_c12_in(fixed_t x) { return x.v >= -65536 && x.v <= 65536; }
// the floor-root contract proved for sqrt_abacus (C13) implies the one-ulp contract used here
constexpr bool pre_c12_sqrtc(fixed_t x, fixed_t r) { return x.v >= 0 && x.v < (1l << 47) && post_sqrt(x, r); }
constexpr bool lem_c12_sqrt_contract(fixed_t x, fixed_t r) { return post_sqrt_1ulp(x, r); }
constexpr bool post_asin(fixed_t x, fixed_t r)
  {
  bool outside = x.v > 65536 || x.v < -65536;
  if( outside ) return vf_isnan(r);
  return r.v >= -PIDIV2 && r.v <= PIDIV2 && (x.v != 0 || r.v == 0) && (x.v <= 0 || r.v >= 0) && (x.v >= 0 || r.v <= 0);
  }
inline bool lem_c12_odd(fixed_t x) { return asin(-x) == -asin(x); }
inline bool lem_c12_acos(fixed_t x)
  {
  fixed_t c = acos(x);
  if( x.v > 65536 || x.v < -65536 ) return vf_isnan(c);
  long s = c.v + asin(x).v;        // pi/2 = 102943.70 raw: within 1 ulp  <=>  s in {102943, 102944}
  return (s == 102943 || s == 102944) && c.v >= -1 && c.v <= PHI + 1;
  }
}
inline void inst_c12(fixed_t x) { (void)asin(x); (void)acos(x); }
}
