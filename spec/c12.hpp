#pragma once
#include "common.hpp"
#include "c10.hpp"
#include "c13.hpp"
// C12: asin/acos NaN exactly when |x| > 1; backward error (x' within 2 ulp, 4 ulp), odd, non-decreasing;
// acos(x) within 1 ulp of pi/2 - asin(x).
namespace vfspec {
using namespace fixedmath;
extern "C" {
// series kernel asin<20> on its call domain [0, 0.6] (prec 20)
// thorough tier: the series kernel asin<20> against the exact polynomial of the source comment
//   x + x^3/6 + 3x^5/40 + 5x^7/112 + 35x^9/1152 + 63x^11/2816
// vf_asin_poly_scaled(x) = 887040 * 2^60 * 2^20 * P(x / 2^20) in 128-bit integers (887040 = lcm of the denominators); every `>> 40`
// truncates by less than one unit of 2^-60 of a 2^-20 ulp.  post_asin_poly: the kernel is within 2.5 units of 2^-20 (0.16 ulp of the
// 48.16 format; measured range [-1.81, 0]) of that polynomial on its call domain.  (The masks are no-ops for x < 2^20.)
constexpr wide vf_asin_poly_scaled(long x)
  { unsigned long const X = static_cast<unsigned long>(x) & 0xFFFFFul, x2 = X * X;
    uwide const M = (uwide(1) << 80) - 1, a1 = uwide(X) << 60, a3 = ((a1 * x2) >> 40) & M, a5 = ((a3 * x2) >> 40) & M, a7 = ((a5 * x2) >> 40) & M,
      a9 = ((a7 * x2) >> 40) & M, a11 = ((a9 * x2) >> 40) & M;
    return wide(uwide(887040) * a1 + uwide(147840) * a3 + uwide(66528) * a5 + uwide(39600) * a7 + uwide(26950) * a9 + uwide(19845) * a11); }
constexpr bool post_asin_poly(long x, long r)
  { wide d = (wide(887040) << 60) * wide(r) - vf_asin_poly_scaled(x); if( d < 0 ) d = -d; return 2 * d <= 5 * (wide(887040) << 60); }
constexpr bool pre_asin_k(long x) { return x >= 0 && x <= 700000; }     // call sites need [0, 629152]
constexpr bool post_asin_k(long x, long r) { return r >= x && r <= x + x / 8 && (x != 0 || r == 0); }
// sqrt as asin uses it: argument in [0, 0.2]; either algorithm is within one ulp of the real root
constexpr bool pre_sqrt_asin(fixed_t x) { return x.v >= 0 && x.v <= 13107; }
constexpr bool post_sqrt_1ulp(fixed_t x, fixed_t r)
  { wide N = wide(x.v) * 65536, q = wide(r.v); return q >= 0 && (q == 0 || (q - 1) * (q - 1) < N) && N < (q + 1) * (q + 1); }
// linear consequence used by asin: on [0, 0.2] the root is at most 0.4473 (29310 raw)
constexpr bool post_sqrt_asin(fixed_t, fixed_t r) { return r.v >= 0 && r.v <= 29310; }
constexpr bool pre_c12_sqrtb(fixed_t x, fixed_t r) { return pre_sqrt_asin(x) && post_sqrt_1ulp(x, r); }
constexpr bool lem_c12_sqrt_bound(fixed_t x, fixed_t r) { return post_sqrt_asin(x, r); }
constexpr bool pre_c12_in(fixed_t x) { return x.v >= -65536 && x.v <= 65536; }
// the floor-root contract proved for sqrt_abacus (C13) implies the one-ulp contract used here
constexpr bool pre_c12_sqrtc(fixed_t x, fixed_t r) { return x.v >= 0 && x.v < (1l << 47) && post_sqrt(x, r); }
constexpr bool lem_c12_sqrt_contract(fixed_t x, fixed_t r) { return post_sqrt_1ulp(x, r); }
constexpr bool post_asin(fixed_t x, fixed_t r)
  {
  bool outside = x.v > 65536 || x.v < -65536;
  if( outside ) return vf_isnan(r);
  return r.v >= -PIDIV2 && r.v <= PIDIV2 && (x.v != 0 || r.v == 0) && (x.v <= 0 || r.v >= 0) && (x.v >= 0 || r.v <= 0);
  }
inline bool lem_c12_odd(fixed_t x) { return asin(-x) == -asin(x); }
inline bool lem_c12_acos(fixed_t x)
  {
  fixed_t c = acos(x);
  if( x.v > 65536 || x.v < -65536 ) return vf_isnan(c);
  long s = c.v + asin(x).v;        // pi/2 = 102943.70 raw: within 1 ulp  <=>  s in {102943, 102944}
  return (s == 102943 || s == 102944) && c.v >= -1 && c.v <= PHI + 1;
  }
}
inline void inst_c12(fixed_t x) { (void)asin(x); (void)acos(x); }
}
