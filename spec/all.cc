// Entry translation unit for the AST dump: the library's compiled source (table functions)
// plus all specification headers.
#include <fixed_math.cc>
#include "all.hpp"
