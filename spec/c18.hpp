#pragma once
#include "common.hpp"
// C18: x >> r == floor(x / 2^r); x << r == x * 2^r when in [lowest,max], otherwise never of opposite
// sign; negative count -> NaN; x & y bitwise and of the representations.
namespace vfspec {
using namespace fixedmath;
extern "C" {
constexpr bool pre_c18(fixed_t x, int r) { return vf_finite(x) && r <= 63; }
constexpr bool post_shr(fixed_t x, int r, fixed_t res)
  {
  if( r < 0 ) return vf_isnan(res);
  wide p = wide(1) << r;               // 2^r, r <= 63
  return wide(res.v) * p <= wide(x.v) && wide(x.v) < (wide(res.v) + 1) * p;
  }
constexpr bool post_shl(fixed_t x, int r, fixed_t res)
  {
  if( r < 0 ) return vf_isnan(res);
  wide p = wide(x.v) * (wide(1) << r);  // |x| < 2^63, 2^r <= 2^63
  if( p >= -wide(MAXV) && p <= wide(MAXV) ) return wide(res.v) == p;
  return !(x.v > 0 && res.v < 0) && !(x.v < 0 && res.v > 0);
  }
constexpr bool post_and(fixed_t a, fixed_t b, fixed_t r) { return r.v == (a.v & b.v); }
}
}
namespace vfspec { inline void inst_c18(fixed_t a, fixed_t b, int r) { (void)(a >> r); (void)(a << r); (void)(a & b); } }
