#pragma once
#include "common.hpp"
// C13: for 0 <= x < 2^31: sqrt(x) >= 0 and within one ulp of the real root (both algorithms), so sqrt(n*n) == n;
// non-decreasing; sqrt(0) == 0; NaN for x < 0.
//
// Abacus algorithm: the loop contract (spec/bind.py) proves, over an opaque square table SQ[], the floor-root
// postcondition SQ[r] <= N /\ N - SQ[r] <= 2r with N = x.v * 2^16. The lemmas below are (1) the two facts about SQ
// the loop proof applies, proved here for SQ[x] := x*x, and (2) the consequences of the floor-root contract that
// the property states (all for arbitrary integers, proved in the INT/NIA back end or by z3 as ring identities).
namespace vfspec {
using namespace fixedmath;
using u64 = unsigned long;
extern "C" {
// (1) instances applied inside the loop proof, proved with real multiplication (ring identity, z3)
constexpr bool pre_sq_step(u64 R, int k) { return k >= 0 && k <= 31 && R < (1ul << 32); }
constexpr bool lem_sq_step(u64 R, int k)
  { u64 s = R + (1ul << k); return s * s == R * R + (R << (k + 1)) + (1ul << (2 * k)); }
// (2) floor-root contract in terms of real squares: r >= 0, r^2 <= N < (r+1)^2
constexpr bool vf_floor_root(wide N, wide r) { return r >= 0 && r * r <= N && N < (r + 1) * (r + 1); }
// exit condition of the loop implies the floor-root contract
constexpr bool pre_sqrt_exit(u64 N, u64 r) { return r < (1ul << 32) && r * r <= N && N - r * r <= 2 * r; }
constexpr bool lem_sqrt_exit(u64 N, u64 r) { return vf_floor_root(wide(N), wide(r)); }
// consequences (x.v = a, N = a * 2^16):
//  - within one ulp: r <= sqrt(N) < r + 1 is the contract itself (r, N in units of 2^-16 resp. 2^-32)
//  - exact on squares: N == m^2 => r == m
constexpr bool pre_sqrt_sq(long N, long r, long m) { return N >= 0 && m >= 0 && m < (1l << 31) && N == m * m && vf_floor_root(N, r); }
constexpr bool lem_sqrt_sq(long, long r, long m) { return r == m; }
//  - monotone: N1 <= N2 => r1 <= r2
constexpr bool pre_sqrt_mono(long N1, long r1, long N2, long r2)
  { return 0 <= N1 && N1 <= N2 && r1 < (1l << 31) && r2 < (1l << 31) && vf_floor_root(N1, r1) && vf_floor_root(N2, r2); }
constexpr bool lem_sqrt_mono(long, long r1, long, long r2) { return r1 <= r2; }
// contract of sqrt in terms of real squares (assumed form for callers; justified by the loop proof + lem_sqrt_exit)
constexpr bool post_sqrt(fixed_t x, fixed_t r)
  {
  if( x.v < 0 ) return vf_isnan(r);
  if( x.v >= (1l << 47) ) return true;
  return vf_floor_root(wide(x.v) * 65536, wide(r.v));
  }
// highest_pwr4_clz: 0 for 0, else the power of four p with p <= v < 4p
constexpr bool pre_anyu(u64) { return true; }
constexpr bool post_pwr4(u64 v, long p)
  { return v == 0 ? p == 0 : (p > 0 && (u64(p) & (u64(p) - 1)) == 0 && (u64(p) & 0x5555555555555555ul) == u64(p) && u64(p) <= v && (v >> 2) < u64(p)); }
// std::sqrt algorithm, structural clauses under the assumed contract of std::sqrt: NaN for negatives, finite and
// non-negative on [0, 2^31)
constexpr bool post_sqrt_std(fixed_t x, fixed_t r)
  { if( x.v < 0 ) return vf_isnan(r); if( x.v >= (1l << 47) ) return vf_valid(r); return r.v >= 0 && vf_finite(r); }
// C08 clause 3: floor-root result (abacus) and a result within one ulp (std::sqrt path) differ by at most 1
constexpr bool pre_c08_sqrt_algos(long N, long ra, long rs)
  { return N >= 0 && ra < (1l << 32) && rs < (1l << 32) && vf_floor_root(N, ra) && rs >= 0 && (rs == 0 || wide(rs - 1) * (rs - 1) < N) && N < wide(rs + 1) * (rs + 1); }
constexpr bool lem_c08_sqrt_algos(long, long ra, long rs) { return ra - rs <= 1 && rs - ra <= 1; }
constexpr bool pre_c13_small(fixed_t x) { return x.v >= 0 && x.v < (1l << 14); }
constexpr bool pre_c13_neg(fixed_t x) { return x.v < 0 && vf_valid(x); }
constexpr bool post_c13_neg(fixed_t, fixed_t r) { return vf_isnan(r); }
}
inline void inst_c13(fixed_t x) { (void)sqrt(x); (void)detail::sqrt_abacus(x); (void)detail::sqrt_std_math(x); (void)detail::highest_pwr4_clz(5ul); }
}
