#pragma once
#include "common.hpp"
// C05: float/double -> fixed_t: nearest value (<= 2^-17 off, ties away from zero, up to one floating
// rounding of the scaling step) when finite and |v| < 2^31-1, NaN otherwise. fixed_t -> double exact for
// |raw| <= 2^53, -> float correctly rounded, fixed -> double -> fixed identity for |x| < 2^31.
namespace vfspec {
using namespace fixedmath;
// v as double (float arguments convert exactly). P = mantissa bits of the source type (24 / 53).
constexpr bool post_fp2f(double v, int P, fixed_t r)
  {
  bool in_range = v > -2147483647.0 && v < 2147483647.0;   // false for NaN, +-inf
  if( !in_range ) return vf_isnan(r);
  if( vf_isnan(r) ) return false;
  double av = v < 0 ? -v : v;
  if( av < 0x1p-20 ) return r.v == 0;       // |v*65536| < 2^-4: nearest is 0 under any rounding of the sum
  // Y = v * 65536 * 2^56 exactly: v >= 2^-20 with <= 53 mantissa bits has lsb >= 2^-72, Y < 2^103
  wide Y = wide( v * 0x1p72 );
  wide R = wide(r.v) * (wide(1) << 56);
  wide half = wide(1) << 55;
  wide aY = Y < 0 ? -Y : Y;
  wide allowance = ((aY + half) >> P) + 1;  // one rounding of fl(y +- 0.5): <= 2^-P * |y +- 0.5|
  wide d = R - Y; if( d < 0 ) d = -d;
  if( d > half + allowance ) return false;
  // exact ties go away from zero whenever the sum y +- 0.5 is exactly representable (|y| < 2^(P-2))
  bool tie = (aY & ((wide(1) << 56) - 1)) == half;
  if( tie && aY < (wide(1) << (56 + P - 2)) ) return R == (Y < 0 ? Y - half : Y + half);
  return true;
  }
extern "C" {
constexpr bool pre_anyd(double) { return true; }
constexpr bool pre_anyf(float) { return true; }
constexpr bool post_d2f(double v, fixed_t r) { return post_fp2f(v, 53, r); }
constexpr bool post_f2f(float v, fixed_t r) { return post_fp2f(double(v), 24, r); }
// fixed -> double: exact for |raw| <= 2^53 (the scaling by 2^-16 and the int->double conversion are both exact)
constexpr bool pre_f2d(fixed_t x) { return x.v >= -(1ll<<53) && x.v <= (1ll<<53); }
constexpr bool post_f2d(fixed_t x, double ret) { return ret * 65536.0 == double(x.v) && long(ret * 65536.0) == x.v; }
// fixed -> float: correctly rounded value of raw/65536 (int64 -> float conversion is the rounding)
constexpr bool post_f2fl(fixed_t x, float ret) { return ret * 65536.0f == float(x.v); }
// Round trip domain: the statement says |x| < 2^31, but its first sentence requires NaN for every double with
// |v| >= 2^31-1; the two clauses contradict each other on 2^31-1 <= |x| < 2^31, so the identity is required where
// the statement is consistent: |x| < 2^31-1 (DESIGN.md section 4, C05).
constexpr bool pre_c05_rt(fixed_t x) { return x.v > -2147483647ll*65536 && x.v < 2147483647ll*65536; }
constexpr bool lem_c05_roundtrip(fixed_t x) { return floating_point_to_fixed<double>(fixed_to_floating_point<double>(x)) == x; }
inline void inst_c05(float f, double d, fixed_t x)
  { (void)fixed_t(f); (void)fixed_t(d); (void)static_cast<float>(x); (void)static_cast<double>(x);
    (void)arithmetic_to_fixed<float,void>(f); (void)arithmetic_to_fixed<double,void>(d); (void)fixed_to_arithmetic<float>(x); (void)fixed_to_arithmetic<double>(x);
    (void)detail::promote_to_fixed(f); (void)detail::promote_to_double(x);
    (void)fixed_to_floating_point<float>(x); (void)fixed_to_floating_point<double>(x); (void)floating_point_to_fixed<float>(f); (void)floating_point_to_fixed<double>(d); }
}
}
