#pragma once
#include "common.hpp"
// C03: finite a, b: b == 0 -> NaN; otherwise a/b is NaN or within 2^-16 of the exact quotient, and not NaN when
// |a| < 2^31. fixed/integer: exact quotient truncated for every non-zero divisor value, NaN for zero. Never traps.
//
// The quotient facts |q*y - x*2^16| < |y| and q == trunc(x/n) are uniqueness facts about `/`; no bit-vector back
// end decides them on 64-bit operands in reasonable time (measured: kissat 10-15 min), so the kernels'
// postconditions are discharged by the INT back end (vfx/intwp.py: the same AST executed over mathematical
// integers, with a range obligation on every signed operation), operator<< entering through its C18 contract.
// The BV back end proves the bit-level obligations of the real bodies (units *.ub) and, in the thorough tier, the
// full postcondition as a cross-check of the two back ends.
namespace vfspec {
using namespace fixedmath;
constexpr wide vf_wabs(wide x) { return x < 0 ? -x : x; }
// r == trunc(x / n), stated without a divider: x == r*n + rem, |rem| < |n|, rem has the sign of x
constexpr bool vf_is_trunc_quot(wide x, wide n, wide r)
  { wide rem = x - r * n; return vf_wabs(rem) < vf_wabs(n) && (rem == 0 || (rem < 0) == (x < 0)); }
template<typename T> constexpr bool post_divs_mul_t(fixed_t a, T n, fixed_t r)
  { return n == 0 ? vf_isnan(r) : vf_is_trunc_quot(wide(a.v), wide(n), wide(r.v)); }
template<typename T> inline void inst_c03_t(fixed_t a, T n) { (void)(a / n); a /= n; }
extern "C" {
constexpr bool post_div_ub(fixed_t, fixed_t y, fixed_t r) { return (y.v != 0 || vf_isnan(r)) && vf_valid(r); }
constexpr bool post_div_mul(fixed_t x, fixed_t y, fixed_t r)
  {
  if( y.v == 0 ) return vf_isnan(r);
  bool small = x.v > -(1ll<<47) && x.v < (1ll<<47);
  if( vf_isnan(r) ) return !small;
  return vf_wabs(wide(r.v) * wide(y.v) - wide(x.v) * 65536) < vf_wabs(wide(y.v));
  }
#define VF_C03(T, tag) \
  constexpr bool post_divs_ub_##tag(fixed_t, T n, fixed_t r) { return (n != 0 || vf_isnan(r)) && vf_valid(r); } \
  constexpr bool post_divs_mul_##tag(fixed_t a, T n, fixed_t r) { return post_divs_mul_t<T>(a, n, r); } \
  inline void inst_c03_##tag(fixed_t a, T n) { inst_c03_t<T>(a, n); }
VF_C03(int8_t, a) VF_C03(int16_t, s) VF_C03(int32_t, i) VF_C03(int64_t, l)
VF_C03(uint8_t, h) VF_C03(uint16_t, t) VF_C03(uint32_t, j) VF_C03(uint64_t, m)
#undef VF_C03
inline void inst_c03(fixed_t a, fixed_t b) { (void)(a / b); a /= b; }
}
}
