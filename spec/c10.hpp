#pragma once
#include "common.hpp"
#include "c09.hpp"
#include "c03.hpp"
// C10: |tan(x) - tan x| <= 2.5 ulp * (1 + tan^2 x) on |x| <= pi off the poles; tan(-x) == -tan(x) for every x;
// tan(x + k*phi) == tan(x) for x, k >= 0 (raw below 2^62); NaN exactly when |x| mod phi == the library's pi/2.
namespace vfspec {
using namespace fixedmath;
inline constexpr long PIDIV2 = 102944;      // raw of fixedmath::fixpidiv2
extern "C" {
constexpr bool lem_c10_constants() { return phi.v == PHI && fixpidiv2.v == PIDIV2 && fixpidiv4.v == 51472 && (phi / 2).v == PHI2; }
// tan_range: x mod phi for every x >= 0
constexpr bool pre_tan_range(long x) { return x >= 0; }
constexpr bool post_tan_range(long x, long r) { return r >= 0 && r < PHI && (x - r) % PHI == 0; }
constexpr bool pre_c10_per(fixed_t x, int64_t k)
  { wide y = wide(x.v) + wide(k) * PHI; return x.v >= 0 && k >= 0 && x.v < (1ll << 62) && y < (wide(1) << 62); }
constexpr bool lem_c10_range_period(fixed_t x, int64_t k) { return detail::tan_range(x.v + k * PHI) == detail::tan_range(x.v); }
// tan depends on a non-negative argument only through tan_range (with range_period: tan(x + k*phi) == tan(x))
constexpr bool pre_c10_nonneg2(fixed_t a, fixed_t b) { return a.v >= 0 && b.v >= 0 && vf_finite(a) && vf_finite(b); }
constexpr bool lem_c10_tan_factors(fixed_t a, fixed_t b) { return detail::tan_range(a.v) != detail::tan_range(b.v) || tan(a) == tan(b); }
constexpr bool lem_c10_period(fixed_t x, int64_t k) { return tan(as_fixed(x.v + k * PHI)) == tan(x); }
// series kernel tan_<20> on its call domain [0, pi/4] (prec 20): result between x and 1.02 (so >> 4 is >= 1 for x >= 16)
// thorough tier: the series kernel tan_<20> against the exact degree-15 Maclaurin polynomial of the tangent
//   x + x^3/3 + 2x^5/15 + 17x^7/315 + 62x^9/2835 + 1382x^11/155925 + 21844x^13/6081075 + 929569x^15/638512875
// (the nested form in the source).  vf_tan_poly_scaled(x) = 638512875 * 2^60 * 2^20 * P(x / 2^20) in 128-bit integers; every `>> 40`
// truncates by less than one unit of 2^-60 (of a 2^-20 ulp), so the value is exact up to 2^-27 of such an ulp.  post_tan_poly: the kernel
// is within 3 units of 2^-20 (0.19 ulp of the 48.16 format; measured maximum 2.29) of that polynomial on [0, pi/4].
// (the masks are no-ops on the domain x < 2^20 -- a_k <= a_1 < 2^80 -- and only tell the bit-level back end the operand widths)
constexpr wide vf_tan_poly_scaled(long x)
  { unsigned long const X = static_cast<unsigned long>(x) & 0xFFFFFul, x2 = X * X;
    uwide const M = (uwide(1) << 80) - 1, a1 = uwide(X) << 60, a3 = ((a1 * x2) >> 40) & M, a5 = ((a3 * x2) >> 40) & M, a7 = ((a5 * x2) >> 40) & M,
      a9 = ((a7 * x2) >> 40) & M, a11 = ((a9 * x2) >> 40) & M, a13 = ((a11 * x2) >> 40) & M, a15 = ((a13 * x2) >> 40) & M;
    return wide(uwide(638512875) * a1 + uwide(212837625) * a3 + uwide(85135050) * a5 + uwide(34459425) * a7 + uwide(13963950) * a9
         + uwide(5659290) * a11 + uwide(2293620) * a13 + uwide(929569) * a15); }
constexpr bool post_tan_poly(long x, long r)
  { wide d = (wide(638512875) << 60) * wide(r) - vf_tan_poly_scaled(x); if( d < 0 ) d = -d; return d <= 3 * (wide(638512875) << 60); }
constexpr bool pre_tan_k(long x) { return x >= 0 && x <= 880000; }     // call sites need [0, 823552]; proved on a 7% wider domain so that a small shift of the crossover is not a precondition failure
constexpr bool post_tan_k(long x, long r) { return r >= x && r <= 1200000 && (x > 823552 || r <= 1069548) && (x != 0 || r == 0); }   // tan_(0) == 0 is what makes tan odd at 0
// div_<16>: truncated quotient of x*2^16 by y, bounded by |x|*2^16
constexpr bool pre_div16(long x, long y) { return y != 0 && x >= 0 && x < (1l << 47); }   // call sites pass a non-negative dividend (x << 16 of a negative value is UB before C++20)
constexpr bool post_div16(long x, long y, long r)
  { wide n = wide(x) * 65536, d = n - wide(r) * wide(y); return vf_wabs(d) < vf_wabs(wide(y)) && vf_wabs(wide(r)) <= vf_wabs(n) && (d == 0 || (d < 0) == (n < 0)); }
// oddness, for every finite x and both NaNs
constexpr bool lem_c10_odd(fixed_t x) { return tan(-x) == -tan(x); }
// pole and range: NaN exactly when |x| mod phi == pi/2 constant; otherwise a finite value
constexpr bool post_tan(fixed_t x, fixed_t r)
  {
  wide ax = x.v < 0 ? -wide(x.v) : wide(x.v);
  bool pole = ax % PHI == PIDIV2;
  return pole ? vf_isnan(r) && (r.v < 0) == (x.v < 0) : (vf_finite(r) && r.v > -(1ll << 34) && r.v < (1ll << 34));
  }
}
inline void inst_c10(fixed_t x) { (void)tan(x); (void)detail::tan_range(x.v); }
}
