#pragma once
#include "common.hpp"
#include "c09.hpp"
#include "c03.hpp"
// C10: |tan(x) - tan x| <= 2.5 ulp * (1 + tan^2 x) on |x| <= pi off the poles; tan(-x) == -tan(x) for every x;
// tan(x + k*phi) == tan(x) for x, k >= 0 (raw below 2^62); NaN exactly when |x| mod phi == the library's pi/2.
namespace vfspec {
using namespace fixedmath;
inline constexpr long PIDIV2 = 102944;      // raw of fixedmath::fixpidiv2
extern "C" {
constexpr bool lem_c10_constants() { return phi.v == PHI && fixpidiv2.v == PIDIV2 && fixpidiv4.v == 51472 && (phi / 2).v == PHI2; }
// tan_range: x mod phi for every x >= 0
constexpr bool pre_tan_range(long x) { return x >= 0; }
constexpr bool post_tan_range(long x, long r) { return r >= 0 && r < PHI && (x - r) % PHI == 0; }
constexpr bool pre_c10_per(fixed_t x, int64_t k)
  { wide y = wide(x.v) + wide(k) * PHI; return x.v >= 0 && k >= 0 && x.v < (1ll << 62) && y < (wide(1) << 62); }
constexpr bool lem_c10_range_period(fixed_t x, int64_t k) { return detail::tan_range(x.v + k * PHI) == detail::tan_range(x.v); }
// tan depends on a non-negative argument only through tan_range (with range_period: tan(x + k*phi) == tan(x))
constexpr bool pre_c10_nonneg2(fixed_t a, fixed_t b) { return a.v >= 0 && b.v >= 0 && vf_finite(a) && vf_finite(b); }
constexpr bool lem_c10_tan_factors(fixed_t a, fixed_t b) { return detail::tan_range(a.v) != detail::tan_range(b.v) || tan(a) == tan(b); }
constexpr bool lem_c10_period(fixed_t x, int64_t k) { return tan(as_fixed(x.v + k * PHI)) == tan(x); }
// series kernel tan_<20> on its call domain [0, pi/4] (prec 20): result between x and 1.02 (so >> 4 is >= 1 for x >= 16)
constexpr bool pre_tan_k(long x) { return x >= 0 && x <= 880000; }     // call sites need [0, 823552]; proved on a 7% wider domain so that a small shift of the crossover is not a precondition failure
constexpr bool post_tan_k(long x, long r) { return r >= x && r <= 1200000 && (x > 823552 || r <= 1069548) && (x != 0 || r == 0); }   // tan_(0) == 0 is what makes tan odd at 0
// div_<16>: truncated quotient of x*2^16 by y, bounded by |x|*2^16
constexpr bool pre_div16(long x, long y) { return y != 0 && x >= 0 && x < (1l << 47); }   // call sites pass a non-negative dividend (x << 16 of a negative value is UB before C++20)
constexpr bool post_div16(long x, long y, long r)
  { wide n = wide(x) * 65536, d = n - wide(r) * wide(y); return vf_wabs(d) < vf_wabs(wide(y)) && vf_wabs(wide(r)) <= vf_wabs(n) && (d == 0 || (d < 0) == (n < 0)); }
// oddness, for every finite x and both NaNs
constexpr bool lem_c10_odd(fixed_t x) { return tan(-x) == -tan(x); }
// pole and range: NaN exactly when |x| mod phi == pi/2 constant; otherwise a finite value
constexpr bool post_tan(fixed_t x, fixed_t r)
  {
  wide ax = x.v < 0 ? -wide(x.v) : wide(x.v);
  bool pole = ax % PHI == PIDIV2;
  return pole ? vf_isnan(r) && (r.v < 0) == (x.v < 0) : (vf_finite(r) && r.v > -(1ll << 34) && r.v < (1ll << 34));
  }
}
inline void inst_c10(fixed_t x) { (void)tan(x); (void)detail::tan_range(x.v); }
}
