// linked into native replay drivers and stand-ins: the library's own compiled source
#include <fixed_math.cc>
