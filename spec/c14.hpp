#pragma once
#include "common.hpp"
#include "c12.hpp"
// C14: |a|,|b| < 2^31: hypot within 2 ulp of sqrt(a^2+b^2) when both < 16384, relative 1.5e-4 otherwise (both sqrt
// algorithms); hypot(a,b) == hypot(b,a) == hypot(|a|,|b|); never NaN or negative.
namespace vfspec {
using namespace fixedmath;
extern "C" {
constexpr bool pre_c14(fixed_t a, fixed_t b) { return a.v > -(1l << 47) && a.v < (1l << 47) && b.v > -(1l << 47) && b.v < (1l << 47); }
// sqrt as hypot uses it: non-negative argument below 2^31, root non-negative, below 2^16 + 1 (raw < 2^32), zero only at zero
constexpr bool pre_sqrt_hyp(fixed_t x) { return x.v >= 0 && x.v < (1l << 47); }
constexpr bool post_sqrt_hyp(fixed_t x, fixed_t r) { return r.v >= 0 && r.v < (1l << 32) && (x.v == 0) == (r.v == 0); }
constexpr bool pre_c14_sqrtb(fixed_t x, fixed_t r) { return pre_sqrt_hyp(x) && post_sqrt_1ulp(x, r); }
constexpr bool lem_c14_sqrt_bound(fixed_t x, fixed_t r) { return post_sqrt_hyp(x, r); }
constexpr bool post_hypot(fixed_t a, fixed_t b, fixed_t r) { return r.v >= 0 && vf_finite(r) && ((a.v == 0 && b.v == 0) == (r.v == 0) || r.v == 0); }
// accuracy clause, exactly, in integers.  In raw units the real hypotenuse is T = sqrt(S), S = a.v^2 + b.v^2 (< 2^95), so
//   |h - T| <= 2            <=>  (h <= 2 or (h-2)^2 <= S) and S <= (h+2)^2
//   |h - T| <= 1.5e-4 * T   <=>  19997^2 * S <= (20000 h)^2 <= 20003^2 * S          (1.5e-4 == 3/20000; all products < 2^125)
// no real function is needed.  The accuracy units take 0 <= b <= a (hypot(a,b) == hypot(b,a) == hypot(|a|,|b|) is proved separately, and S is
// symmetric and even too) and a slice selector L, the bit length of a.v: it fixes every shift distance in hypot.
constexpr bool pre_c14_acc(fixed_t a, fixed_t b, int L)
  { if( !pre_c14(a, b) || b.v < 0 || a.v < b.v ) return false;      // 0 <= b <= a: the general case follows by the symmetry lemma (c14.symmetry.cut)
    return L == 0 ? a.v == 0 : (a.v >> (L - 1)) == 1; }
// the 48 slices cover the ordered non-negative domain: every 0 <= b <= a < 2^31 lies in slice L = bit length of a.v
constexpr bool pre_c14_ordered(fixed_t a, fixed_t b) { return pre_c14(a, b) && b.v >= 0 && a.v >= b.v; }
constexpr bool lem_c14_slices_cover(fixed_t a, fixed_t b)
  { int const L = a.v == 0 ? 0 : 64 - __builtin_clzl(static_cast<unsigned long>(a.v)); return L >= 0 && L <= 47 && pre_c14_acc(a, b, L); }
constexpr bool vf_hypot_small(fixed_t a, fixed_t b) { return a.v > -(1l << 30) && a.v < (1l << 30) && b.v > -(1l << 30) && b.v < (1l << 30); }
// h is not too small: T - h <= 2 resp. <= 1.5e-4 T
constexpr bool post_hypot_acc_lo(fixed_t a, fixed_t b, fixed_t h)
  { if( h.v < 0 || h.v >= (1l << 48) ) return false;
    wide const A = a.v, B = b.v, H = h.v, S = A * A + B * B;
    if( vf_hypot_small(a, b) ) return S <= (H + 2) * (H + 2);
    return wide(399880009) * S <= wide(400000000) * (H * H); }
// h is not too large: h - T <= 2 resp. <= 1.5e-4 T
constexpr bool post_hypot_acc_hi(fixed_t a, fixed_t b, fixed_t h)
  { if( h.v < 0 || h.v >= (1l << 48) ) return false;
    wide const A = a.v, B = b.v, H = h.v, S = A * A + B * B;
    if( vf_hypot_small(a, b) ) return H <= 2 || (H - 2) * (H - 2) <= S;
    return wide(400000000) * (H * H) <= wide(400120009) * S; }
constexpr bool post_hypot_acc(fixed_t a, fixed_t b, fixed_t h) { return post_hypot_acc_lo(a, b, h) && post_hypot_acc_hi(a, b, h); }
// sqrt as hypot uses it, for the accuracy argument: within one ulp of the real root (floor root proved for abacus implies it: c12.sqrt.contract;
// assumed for std::sqrt), plus the range facts of post_sqrt_hyp
constexpr bool post_sqrt_hyp_1ulp(fixed_t x, fixed_t r) { return post_sqrt_hyp(x, r) && post_sqrt_1ulp(x, r); }
// the floor-root contract proved for sqrt_abacus (C13) implies the contract the accuracy units use
constexpr bool pre_c14_sqrtc(fixed_t x, fixed_t r) { return pre_sqrt_hyp(x) && post_sqrt(x, r); }
constexpr bool lem_c14_sqrt_contract(fixed_t x, fixed_t r) { return post_sqrt_hyp_1ulp(x, r); }
// cut-point lemma: the five calls reach the point after operand normalisation with the same (uhi, ulo); the ghost
// observations are compared in the lemma's contract (spec/bind.py)
inline bool lem_c14_cut(fixed_t a, fixed_t b) { (void)hypot(a, b); (void)hypot(b, a); (void)hypot(abs(a), abs(b)); (void)hypot(-a, b); (void)hypot(a, -b); return true; }
inline bool lem_c14_swap(fixed_t a, fixed_t b) { return hypot(a, b) == hypot(b, a); }
inline bool lem_c14_abs(fixed_t a, fixed_t b) { return hypot(a, b) == hypot(abs(a), abs(b)); }
}
inline void inst_c14(fixed_t a, fixed_t b) { (void)hypot(a, b); }
}
