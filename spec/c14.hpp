#pragma once
#include "common.hpp"
#include "c12.hpp"
// C14: |a|,|b| < 2^31: hypot within 2 ulp of sqrt(a^2+b^2) when both < 16384, relative 1.5e-4 otherwise (both sqrt
// algorithms); hypot(a,b) == hypot(b,a) == hypot(|a|,|b|); never NaN or negative.
namespace vfspec {
using namespace fixedmath;
extern "C" {
constexpr bool pre_c14(fixed_t a, fixed_t b) { return a.v > -(1l << 47) && a.v < (1l << 47) && b.v > -(1l << 47) && b.v < (1l << 47); }
// sqrt as hypot uses it: non-negative argument below 2^31, root non-negative, below 2^16 + 1 (raw < 2^32), zero only at zero
constexpr bool pre_sqrt_hyp(fixed_t x) { return x.v >= 0 && x.v < (1l << 47); }
constexpr bool post_sqrt_hyp(fixed_t x, fixed_t r) { return r.v >= 0 && r.v < (1l << 32) && (x.v == 0) == (r.v == 0); }
constexpr bool pre_c14_sqrtb(fixed_t x, fixed_t r) { return pre_sqrt_hyp(x) && post_sqrt_1ulp(x, r); }
constexpr bool lem_c14_sqrt_bound(fixed_t x, fixed_t r) { return post_sqrt_hyp(x, r); }
constexpr bool post_hypot(fixed_t a, fixed_t b, fixed_t r) { return r.v >= 0 && vf_finite(r) && ((a.v == 0 && b.v == 0) == (r.v == 0) || r.v == 0); }
// cut-point lemma: the five calls reach the point after operand normalisation with the same (uhi, ulo); the ghost
// observations are compared in the lemma's contract (spec/bind.py)
inline bool lem_c14_cut(fixed_t a, fixed_t b) { (void)hypot(a, b); (void)hypot(b, a); (void)hypot(abs(a), abs(b)); (void)hypot(-a, b); (void)hypot(a, -b); return true; }
inline bool lem_c14_swap(fixed_t a, fixed_t b) { return hypot(a, b) == hypot(b, a); }
inline bool lem_c14_abs(fixed_t a, fixed_t b) { return hypot(a, b) == hypot(abs(a), abs(b)); }
}
inline void inst_c14(fixed_t a, fixed_t b) { (void)hypot(a, b); }
}
