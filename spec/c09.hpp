#pragma once
#include "common.hpp"
// C09: |sin(x) - sin x| <= 4 ulp + r^9/9! on |x| <= 2*pi (likewise cos), results in [-1, 1];
// sin(x + k*2*phi) == sin(x) and cos(x + k*2*phi) == cos(x) exactly for |x|, |x + k*2*phi| < 2^46.
namespace vfspec {
using namespace fixedmath;
inline constexpr long PHI = 205887;         // raw of fixedmath::phi
inline constexpr long PHI2 = 102943;        // phi/2 as the library computes it
inline constexpr long TWOPHI = 411774;      // 2*phi
extern "C" {
// the library's own constants are what the spec constants claim (checked, not assumed)
constexpr bool lem_c09_constants() { return phi.v == PHI && (phi / 2).v == PHI2 && (2 * phi).v == TWOPHI && (phi + phi / 2).v == PHI + PHI2 && fixpidiv2.v == 102944; }
// sin_range: canonical representative of x modulo 2*phi in [-phi/2, 3*phi/2] (411774 raw values, one per class)
constexpr bool post_sin_range(fixed_t x, fixed_t r)
  {
  return r.v >= -PHI2 && r.v <= PHI + PHI2                       // range
      && (wide(x.v) - wide(r.v)) % TWOPHI == 0                   // congruent
      && (!(x.v >= -PHI2 && x.v <= PHI + PHI2) || r.v == x.v);   // identity on the interval
  }
constexpr bool pre_c09_per(fixed_t x, int64_t k)
  {
  wide y = wide(x.v) + wide(k) * TWOPHI;
  return x.v > -(1ll << 62) && x.v < (1ll << 62) && y > -(wide(1) << 62) && y < (wide(1) << 62);
  }
constexpr bool lem_c09_range_period(fixed_t x, int64_t k) { return detail::sin_range(as_fixed(x.v + k * TWOPHI)) == detail::sin_range(x); }
// sin depends on its argument only through sin_range (with range_period this gives sin(x + k*2phi) == sin(x))
constexpr bool lem_c09_sin_factors(fixed_t a, fixed_t b) { return !(detail::sin_range(a) == detail::sin_range(b)) || sin(a) == sin(b); }
constexpr bool lem_c09_sin_period(fixed_t x, int64_t k) { return sin(as_fixed(x.v + k * TWOPHI)) == sin(x); }
constexpr bool lem_c09_cos_period(fixed_t x, int64_t k) { return cos(as_fixed(x.v + k * TWOPHI)) == cos(x); }
// results always lie in [-1, 1]
constexpr bool post_unit_interval(fixed_t, fixed_t r) { return r.v >= -65536 && r.v <= 65536; }
constexpr bool pre_c09_cos(fixed_t x) { return x.v > -(1ll << 62) && x.v < (1ll << 62); }
}
inline void inst_c09(fixed_t x) { (void)sin(x); (void)cos(x); (void)detail::sin_range(x); }
}
// ---- deductive accuracy of the polynomial kernel (thorough tier, sliced): on the folded domain |x| <= phi/2 the result of
// sin differs from the EXACT Maclaurin polynomial S(x) = x - x^3/3! + x^5/5! - x^7/7! (x in raw units, evaluated in
// 128-bit integers scaled by 5040 * 2^96) by at most 3 ulp. With the Taylor remainder |sin t - P(t)| <= t^9/9! (assumed
// textbook lemma) and |pi - phi| < 0.42 ulp this is the bound 4 ulp + r^9/9! of the property, without any libm oracle.
namespace vfspec {
extern "C" {
constexpr wide vf_sin_poly_scaled(long x)
  { wide X = x, x2 = X * X, x3 = x2 * X, x5 = x3 * x2, x7 = x5 * x2;
    return (wide(5040) << 96) * X - (wide(840) << 64) * x3 + (wide(42) << 32) * x5 - x7; }
constexpr bool post_sin_poly(fixed_t x, fixed_t r)
  { wide d = (wide(5040) << 96) * wide(r.v) - vf_sin_poly_scaled(x.v); if( d < 0 ) d = -d; return d <= 3 * (wide(5040) << 96); }
}
}
