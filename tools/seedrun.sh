#!/bin/bash
# tools/seedrun.sh <seed-name> [PROP...] : apply seeded/<name>/patch.diff to /repo, run the property's check(s), undo.
N=$1; shift
SD=/verif/seeded/$N
P=${@:-$(python3 -c "import json;print(json.load(open('$SD/meta.json'))['property'])")}
cd /repo && git apply $SD/patch.diff 2>/dev/null || { echo "$N: patch does not apply"; exit 9; }
cd /verif
rm -rf /tmp/evidence.bak.$$; cp -r evidence /tmp/evidence.bak.$$
for p in $P; do
  out=$(./check $p 2>/tmp/seedrun.err); rc=$?
  nv=$(echo "$out" | grep -c '^VIOLATION')
  first=$(echo "$out" | grep '^VIOLATION' | head -1 | sed 's/.*replay=\/verif\/replays\///' | cut -c1-110)
  echo "$N :: $p rc=$rc violations=$nv  $first"
  [ $rc -eq 2 ] && grep UNDECIDED /tmp/seedrun.err | head -3 | cut -c1-200
done
cd /repo && git checkout -- . 
rm -rf /verif/evidence; mv /tmp/evidence.bak.$$ /verif/evidence
