#!/bin/bash
# tools/harmlessrun.sh <name> <PROP...> : apply a behaviour-preserving patch to /repo, run checks (expect no VIOLATION), undo.
N=$1; shift
cd /repo && git apply /verif/harmless/$N/patch.diff 2>/dev/null || { echo "$N: patch does not apply"; exit 9; }
cd /verif; rm -rf /tmp/evidence.bak.$$; cp -r evidence /tmp/evidence.bak.$$
for p in "$@"; do
  out=$(./check $p 2>/tmp/harmless.err); rc=$?
  nv=$(echo "$out" | grep -c '^VIOLATION')
  echo "$N :: $p rc=$rc violations=$nv $(echo "$out" | grep '^VIOLATION' | head -2 | sed 's/.*replays\///' | cut -c1-120 | tr '\n' ' ')"
  [ $rc -eq 2 ] && grep UNDECIDED /tmp/harmless.err | head -3 | cut -c1-220
done
cd /repo && git checkout -- .
rm -rf /verif/evidence; mv /tmp/evidence.bak.$$ /verif/evidence
