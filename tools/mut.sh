#!/bin/bash
# tools/mut.sh <PROP> <file-relative-to-repo> <sed-expr> : apply a mutation to /repo, run the check, restore.
set -u
P=$1; F=/repo/$2; E=$3
cp "$F" /tmp/mut_backup.$$ 
sed -i "$E" "$F"
if cmp -s "$F" /tmp/mut_backup.$$; then echo "MUTATION DID NOT APPLY"; rm /tmp/mut_backup.$$; exit 3; fi
(cd /repo && git diff --stat | tail -1)
rm -rf /tmp/evidence.bak.$$; cp -r /verif/evidence /tmp/evidence.bak.$$
cd /verif && ./check $P 2>&1 | grep -E "VIOLATION|UNDECIDED|discharged|KNOWN" | cut -c1-220 | head -${4:-6}
rc=${PIPESTATUS[0]}
cp /tmp/mut_backup.$$ "$F"; rm /tmp/mut_backup.$$
rm -rf /verif/evidence; mv /tmp/evidence.bak.$$ /verif/evidence
(cd /repo && git status --short | grep -v _build)
