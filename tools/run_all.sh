#!/bin/bash
# run every registered quick check (or the ids given) and summarise
cd /verif
ids=${@:-$(python3 -c "import json;print(' '.join(c['property_id'] for c in json.load(open('MANIFEST.json'))['checks']))")}
for p in $ids; do
  s=$(date +%s); out=$(./check $p --tier ${TIER:-quick} 2>/tmp/run_all_$p.err); rc=$?; e=$(date +%s)
  echo "$p rc=$rc $((e-s))s :: $(echo "$out" | tail -1 | cut -c1-160)"
done
python3-vt - <<'PY'
import json,jsonschema,glob
sch=json.load(open('/root/.vp/EVIDENCE.schema.json'))
for f in sorted(glob.glob('/verif/evidence/*.json')):
    d=json.load(open(f)); jsonschema.validate(d,sch)
    c=d['coverage']
    if d['level']=='proof' and c['obligations']!=c['discharged']: print('MISMATCH',f)
print('evidence valid')
PY
