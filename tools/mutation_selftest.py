#!/usr/bin/env python3
"""
tools/mutation_selftest.py [out.json] -- canned single-site mutations (DESIGN 3.4 / 12).

Copies /repo/fixed_lib to a scratch directory OUTSIDE /repo and /verif, applies one mutation at a time there (never to
/repo), runs the property's quick check against the scratch copy (VF_REPO) and records exit code and first violation.
A surviving mutant is a weakness of the contracts (or an equivalent mutant), it does not fail anything.
The scratch copy is removed at the end.
"""
import os, sys, re, json, shutil, subprocess, tempfile, time
VERIF = os.path.dirname(os.path.dirname(os.path.abspath(__file__)))
M = 'fixed_lib/include/fixedmath/math.h'
C = 'fixed_lib/include/fixedmath/detail/common.h'
S = 'fixed_lib/src/fixed_math.cc'
# (property, file, python-regex, replacement, expectation)   expectation: 'detect' | 'equivalent'
MUTANTS = [
    ('C01', M, r'if\( fixed_unlikely\(\(lh < 0_fix \) && \( rh < 0_fix\)\) \)', 'if( fixed_unlikely((lh < 0_fix ) || ( rh < 0_fix)) )', 'detect'),
    ('C01', M, r'        if\( fixed_unlikely\( result < -quiet_NaN_result\(\) \) \)\n          return -quiet_NaN_result\(\);\n        \}\n      return result;', '        }\n      return result;', 'detect'),
    ('C02', M, r'return fix_carrier_t\{ result >> 16 \};', 'return fix_carrier_t{ result >> 15 };', 'detect'),
    ('C02', M, r'return !__builtin_mul_overflow\( lh, \+rh, &result \);', 'return !__builtin_mul_overflow( lh, static_cast<fixed_internal>(rh), &result );', 'detect'),
    ('C02', M, r'      return result >= -quiet_NaN_result\(\);', '      return result > -quiet_NaN_result();', 'equivalent'),
    ('C03', M, r'if\( fixed_likely\(y.v != 0 && check_division_result\(x\)\) \)', 'if( fixed_likely(y.v != 0) )', 'detect'),
    ('C03', M, r'as_fixed\( \(x << 16\).v / y.v \)', 'as_fixed( (x << 15).v / y.v )', 'detect'),
    ('C03', M, r'if\( fixed_unlikely\( rh > static_cast<integral_type>\(std::numeric_limits<fixed_internal>::max\(\)\) \) \)', 'if( false )', 'detect'),
    ('C03', M, r'return detail::promoted_fixed_division\( lh, rh \);', 'return detail::promoted_fixed_division( rh, lh );', 'detect'),
    ('C04', M, r'cxx20::cmp_less_equal\(value, detail::limits_::max_integral\(\)\)', 'cxx20::cmp_less(value, detail::limits_::max_integral())', 'detect'),
    ('C04', M, r'fixed_internal tmp\{ \( value.v >> 16 \)', 'fixed_internal tmp{ ( value.v / 65536 )', 'detect'),
    ('C05', M, r'ft\(-0\.5\) : ft\(0\.5\)', 'ft(-0.5) : ft(0.25)', 'detect'),
    ('C05', M, r'value > double\(detail::limits_::min_integral\(\)\)', 'value >= double(detail::limits_::min_integral())', 'detect'),
    ('C05', M, r'return static_cast<ft>\(value.v\) / ft\(65536\);', 'return static_cast<ft>(value.v >> 1) / ft(32768);', 'detect'),
    ('C06', M, r'return as_fixed\(value.v > 0 \? value.v : -value.v\);', 'return as_fixed(value.v > 1 ? value.v : -value.v);', 'detect'),
    ('C06', 'fixed_lib/include/fixedmath/types.h', r'operator >= \( fixed_t l, fixed_t r \) noexcept \{ return l.v >= r.v; \}', 'operator >= ( fixed_t l, fixed_t r ) noexcept { return l.v > r.v; }', 'detect'),
    ('C15', M, r'value.v <= detail::limits_::max\(\).v - 0xffff', 'value.v < detail::limits_::max().v - 0x1ffff', 'detect'),
    ('C15', M, r'value = as_fixed\( value.v & ~\(\(1<<16\)-1\) \);', 'value = as_fixed( value.v & ~((1<<15)-1) );', 'detect'),
    ('C18', M, r'return fix_carrier_t\{l.v >> r\};', 'return fix_carrier_t{l.v >> (r & 31)};', 'detect'),
    ('C18', M, r'\| \( \(1ull<<63\) & unsigned_fix_internal\(l.v\) \)', '', 'detect'),
    ('C16', M, r'return detail::promoted_double_substract\( lh, rh \);', 'return detail::promoted_double_substract( rh, lh );', 'detect'),
    ('C16', M, r'    lh = fixed_substract\(lh,rh\);', '    lh = fixed_addition(lh,rh);', 'detect'),
    ('C16', M, r'return promote_to_double\(lh\) / promote_to_double\( rh \);', 'return promote_to_double(lh) * (1.0 / promote_to_double( rh ));', 'detect'),
    ('C16', M, r'      return detail::fixed_multiply_scalar\( lh, rh\);', '      return detail::promoted_fixed_multiply( lh, rh);', 'detect'),
    ('C17', M, r'return !__builtin_mul_overflow\( lh, \+rh, &result \);', 'return !__builtin_mul_overflow( lh, +rh + (lh == 12345 ? 1 : 0), &result );', 'detect'),
    ('C17', M, r'as_fixed\( lh.v / promote_type_to_signed\(rh\) \);', 'as_fixed( (lh.v + (rh == 7 ? 1 : 0)) / promote_type_to_signed(rh) );', 'detect'),
    ('C13', M, r'          result \+= pwr4 << 1;', '          result += pwr4;', 'detect'),
    ('C13', M, r'        if\( val >= \( result \+ pwr4 \) \)', '        if( val > ( result + pwr4 ) )', 'detect'),
    ('C13', M, r'value.v >= \(1ll<<48\)', 'value.v > (1ll<<48)', 'detect'),
    ('C13', C, r'      if\( \(clz & 1\) == 0 \)', '      if( (clz & 1) == 1 )', 'detect'),
    ('C09', M, r'      rad = phi - rad; //inverse of phi/2 .. -phi/2', '      rad = phi + phi2 - rad;', 'detect'),
    ('C09', M, r'rad = as_fixed\( rad.v \+ _2phi.v \);', 'rad = as_fixed( rad.v + _2phi.v + 1);', 'detect'),
    ('C09', M, r'constexpr fixed_internal _42\{ fixed_internal\{42\}<<prec_\};', 'constexpr fixed_internal _42{ fixed_internal{41}<<prec_};', 'detect'),
    ('C09', M, r'if\( fixed_unlikely\( rad < -phi2 \|\| rad > phi\+phi2 \) \)', 'if( fixed_unlikely( rad < -phi2 || rad > phi+phi ) )', 'detect'),
    ('C10', M, r'        sign_ = !sign_;', '        sign_ = sign_;', 'detect'),
    ('C10', M, r'      if\( fixed_unlikely\(x > phi2.v\) \)', '      if( fixed_unlikely(x > phi.v) )', 'detect'),
    ('C10', M, r'fixed_internal y3_\{ fix_<prec_>\(17\) \+ mul_<prec_>\(x2,y2_\)/ 9 \};', 'fixed_internal y3_{ fix_<prec_>(17) + mul_<prec_>(x2,y2_)/ 8 };', 'detect'),
    ('C10', M, r'      if\( x <= fixpidiv4.v \)', '      if( x <= fixpidiv4.v + 2000 )', 'equivalent'),
    ('C11', M, r'constexpr fixed_internal atan_19o16 \{ 57076 \};', 'constexpr fixed_internal atan_19o16 { 57090 };', 'detect'),
    ('C11', M, r'        return atan\(y/x\) - phi;', '        return atan(y/x) + phi;', 'detect'),
    ('C11', M, r'      if\( y >= 0_fix \)', '      if( y > 0_fix )', 'detect'),
    ('C11', M, r'constexpr fixed_internal _2pow18 \{ fixed_internal\{1\} << 34 \};', 'constexpr fixed_internal _2pow18 { fixed_internal{1} << 47 };', 'detect'),
    ('C12', M, r'      if\( x_ <= \(0\.60_fix\)\.v \)', '      if( x_ <= (0.70_fix).v )', 'detect'),
    ('C12', M, r'    if\( fixed_likely\( x_ <= _1 \) \)', '    if( fixed_likely( x_ < _1 ) )', 'detect'),
    ('C12', M, r'return as_fixed\( phi2.v - asin\(x\).v \);', 'return as_fixed( fixpidiv2.v - asin(x).v );', 'equivalent'),
    ('C12', M, r'return as_fixed\( phi2.v - asin\(x\).v \);', 'return as_fixed( fixpidiv2.v - asin(x).v + 1);', 'detect'),
    ('C14', M, r'int lshbits\{ std::min\( std::max\(uhi_clz - 30,0\) >> 1, uhi_clz - 33 \) \};', 'int lshbits{ std::max(uhi_clz - 30,0) >> 1 };', 'detect'),
    ('C14', M, r'    if\( rh < 0_fix \)', '    if( rh < -1_fix )', 'detect'),
    ('C14', M, r'int rshbits\{ 48 - cxx20::countl_zero\( uhi \) \};', 'int rshbits{ 47 - cxx20::countl_zero( uhi ) };', 'equivalent'),
    ('C19', M, r'        angle \+= 360;', '        angle += 359;', 'detect'),
    ('C19', 'fixed_lib/src/sin_angle_table.h', r'  32768ll', '  32771ll', 'detect'),
    ('C19', S, r'static_cast<uint32_t>\( value.v >> 6 \) \) & 0xfe; // make', 'static_cast<uint32_t>( value.v >> 5 ) ) & 0xfe; // make', 'detect'),
    ('C20', M, r'cxx20::cmp_less_equal\(angle, 360\)', 'cxx20::cmp_less(angle, 360)', 'detect'),
    ('C20', M, r'return integral_to_fixed\(angle\) \* fixedmath::phi / 180;', 'return integral_to_fixed(angle) * fixedmath::fixpidiv2 / 90;', 'equivalent'),
    ('C20', M, r'    return cos\( angle \* phi / 180 \);', '    return cos( angle * (phi / 180) );', 'detect'),
    ('C07', M, r'rad = as_fixed\( \( phi2.v \+ rad.v % _2phi.v \) % _2phi.v - phi2.v \);', 'rad = as_fixed( ( phi2.v + rad.v ) % _2phi.v - phi2.v );', 'detect'),
    ('C07', M, r'if\( fixed_unlikely\( scaled.v >= \(fixed_internal\{1\} << \(63 - rshbits\)\) \) \)', 'if( false )', 'detect'),
    ('C08', 'fixed_lib/include/fixedmath/detail/utility_cxx20.h', r'return t < 0 \? true : static_cast<UT>\(t\) < u;', 'return t < 0 ? true : static_cast<UT>(t) <= u;', 'detect'),
]


def main():
    out = sys.argv[1] if len(sys.argv) > 1 else os.path.join(VERIF, 'seeded', 'mutation_selftest.json')
    scratch = tempfile.mkdtemp(prefix='vf_mutrepo_')
    try:
        shutil.copytree('/repo/fixed_lib', os.path.join(scratch, 'fixed_lib'))
        env = dict(os.environ, VF_REPO=scratch)
        results = []
        for i, (pid, rel, pat, rep, expect) in enumerate(MUTANTS):
            path = os.path.join(scratch, rel)
            orig = open(path).read()
            new, n = re.subn(pat, rep, orig, count=1)
            rec = {'property': pid, 'file': rel, 'pattern': pat, 'replacement': rep, 'expectation': expect}
            if n != 1:
                rec['outcome'] = 'mutation did not apply'
                results.append(rec)
                print('%2d %s NOT APPLIED %s' % (i, pid, pat[:50]), flush=True)
                continue
            open(path, 'w').write(new)
            t0 = time.time()
            r = subprocess.run([os.path.join(VERIF, 'check'), pid], cwd=VERIF, env=env, capture_output=True, text=True)
            open(path, 'w').write(orig)
            vio = [l for l in r.stdout.split('\n') if l.startswith('VIOLATION')]
            rec.update({'exit': r.returncode, 'violations': len(vio), 'seconds': round(time.time() - t0, 1),
                        'first': re.sub(r'.*replays/', '', vio[0])[:140] if vio else None,
                        'outcome': 'detected' if r.returncode == 1 else ('undecided' if r.returncode == 2 else 'survived')})
            results.append(rec)
            print('%2d %s %-9s (%s) %5.0fs %s' % (i, pid, rec['outcome'], expect, rec['seconds'], (rec['first'] or '')[:90]), flush=True)
        summary = {'mutants': len(results), 'detected': sum(r.get('outcome') == 'detected' for r in results),
                   'survived': sum(r.get('outcome') == 'survived' for r in results), 'undecided': sum(r.get('outcome') == 'undecided' for r in results),
                   'survivors_expected_equivalent': sum(r.get('outcome') == 'survived' and r['expectation'] == 'equivalent' for r in results),
                   'unexpected_survivors': [r for r in results if r.get('outcome') == 'survived' and r['expectation'] != 'equivalent']}
        json.dump({'summary': summary, 'results': results}, open(out, 'w'), indent=1)
        print(json.dumps({k: v for k, v in summary.items() if k != 'unexpected_survivors'}))
        print('unexpected survivors:', [(r['property'], r['pattern'][:40]) for r in summary['unexpected_survivors']])
    finally:
        shutil.rmtree(scratch, ignore_errors=True)


if __name__ == '__main__':
    main()
