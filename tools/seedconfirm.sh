#!/bin/bash
# tools/seedconfirm.sh <worktree> <seed-dir> : confirm a seeded change in its scratch worktree:
#  tests pass with the change, demo fails with it, demo passes without it.
WT=$1; SD=$2
cd $WT || exit 9
git checkout -q -- fixed_lib
cmd=$(python3 -c "import json,sys;print(json.load(open('$SD/meta.json'))['demo_cmd'])")
cp $SD/demo.cc $WT/demo.cc
# without
( eval "$cmd" ) >/tmp/seed_without.log 2>&1; rc0=$?
git apply $SD/patch.diff || { echo "PATCH DOES NOT APPLY"; exit 9; }
( eval "$cmd" ) >/tmp/seed_with.log 2>&1; rc1=$?
if [ ! -d _build ]; then cmake -G Ninja -B _build -S . -DFIXEDMATH_ENABLE_UNIT_TESTS=ON -DBUILD_TESTING=ON -DCMAKE_BUILD_TYPE=RelWithDebInfo >/dev/null 2>&1; fi
cmake --build _build >/dev/null 2>&1; t=$(ctest --test-dir _build -j8 2>&1 | grep "tests passed")
git checkout -q -- fixed_lib; rm -f demo.cc demo
echo "$(basename $SD): demo_without_rc=$rc0 demo_with_rc=$rc1 tests: $t"
