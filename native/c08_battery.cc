// C08 stand-in: one deterministic battery of calls; prints a 64-bit digest of every result. The driver builds this
// file with g++ and clang++ at -O0..-O3 under -std=c++17 (abacus), c++20 and c++2b and compares the digests; it also
// compares constant evaluation against run-time evaluation for a set of boundary arguments (static storage vs volatile).
#include <fixedmath/fixed_math.hpp>
#include <cstdio>
#include <cstdint>
using namespace fixedmath;
static uint64_t h = 1469598103934665603ull, hs = 1469598103934665603ull;
static void mix(int64_t v) { h ^= (uint64_t)v; h *= 1099511628211ull; }
// results that depend on which sqrt algorithm the configuration selects at run time are digested separately
static void mixs(int64_t v) { hs ^= (uint64_t)v; hs *= 1099511628211ull; }
#ifdef VF_USE_ABACUS_EXPLICITLY
#define VF_SQRT(x) detail::sqrt_abacus(x)
#else
#define VF_SQRT(x) detail::sqrt_abacus(x)
#endif
// constant evaluation vs run time on boundary arguments (every call here must be accepted as a constant expression)
#define CE1(f, a) { constexpr fixed_t c = f(as_fixed(a)); volatile int64_t va = a; fixed_t r = f(as_fixed(va)); if (c.v != r.v) { ++ce_fail; std::printf("CE-MISMATCH %s(%lld) %lld vs %lld\n", #f, (long long)(a), (long long)c.v, (long long)r.v); } mix(c.v); }
#define CE2(expr_c, expr_r) { constexpr fixed_t c = expr_c; fixed_t r = expr_r; if (c.v != r.v) { ++ce_fail; std::printf("CE-MISMATCH %s\n", #expr_c); } mix(c.v); }
#ifdef VF_HAVE_GEN
#include "c08_gen.h"
#else
static int vf_gen_check() { return 0; }
#endif
int main() {
  int ce_fail = vf_gen_check();
  constexpr int64_t B[] = {0, 1, -1, 65535, 65536, -65536, 102943, 102944, 205887, -205886, 411774, 39322, 28672, 159744, 1ll << 30, (1ll << 30) - 1, 1ll << 34, 1ll << 46, (1ll << 47) - 1, -(1ll << 47), 0x7FFFFFFFFFFFFFFEll, -0x7FFFFFFFFFFFFFFEll, 0x7FFFFFFFFFFFFFFFll};
  CE1(sin, 0) CE1(sin, 102944) CE1(sin, -205886) CE1(sin, 0x7FFFFFFFFFFFFFFEll) CE1(cos, 65536) CE1(cos, (1ll << 46)) CE1(tan, 51472) CE1(tan, 102944) CE1(tan, -205886) CE1(tan, (1ll << 40) + 7)
  CE1(atan, 65536) CE1(atan, (1ll << 34)) CE1(atan, 60501272448540ll) CE1(atan, -28672) CE1(asin, 65536) CE1(asin, -39323) CE1(asin, 65537) CE1(acos, -65536) CE1(acos, 1)
  CE1(detail::sqrt_abacus, 0) CE1(detail::sqrt_abacus, (1ll << 46)) CE1(detail::sqrt_abacus, (1ll << 47) - 1) CE1(detail::sqrt_abacus, -1) CE1(floor, -1) CE1(ceil, 65536) CE1(ceil, 0x7FFFFFFFFFFFFFFEll) CE1(abs, -0x7FFFFFFFFFFFFFFEll)
  { volatile int64_t va = 0x7FFFFFFFFFFFFFFEll, vb = 2; CE2(as_fixed(0x7FFFFFFFFFFFFFFEll) + as_fixed(2), as_fixed(va) + as_fixed(vb)) }
  { volatile int64_t va = -(1ll << 62); CE2(as_fixed(-(1ll << 62)) + as_fixed(-(1ll << 62)), as_fixed(va) + as_fixed(va)) }
  { volatile int64_t va = 248532622811533ll, vb = -334916981286ll; CE2(as_fixed(248532622811533ll) * as_fixed(-334916981286ll), as_fixed(va) * as_fixed(vb)) }
  { volatile int64_t va = -(1ll << 47), vb = -1; CE2(as_fixed(-(1ll << 47)) / as_fixed(-1), as_fixed(va) / as_fixed(vb)) }
  { volatile int64_t va = 1073741823, vb = 56646; CE2(hypot(as_fixed(1073741823), as_fixed(56646)), hypot(as_fixed(va), as_fixed(vb))) }
  { volatile uint64_t n = ~0ull; volatile int64_t va = 5; CE2(as_fixed(5) * uint64_t(~0ull), as_fixed(va) * uint64_t(n)) }
  { volatile uint8_t d = 200; CE2(angle_to_radians(uint8_t(200)), angle_to_radians(uint8_t(d))) }
  { volatile int d = -359; CE2(sin_angle(-359), sin_angle(int(d))) }
  // run-time battery (digest compared across compilers / levels / standards by the driver)
  for (int64_t a : B) { volatile int64_t va = a; fixed_t x = as_fixed(va);
    mix(sin(x).v); mix(cos(x).v); mix(tan(x).v); mix(atan(x).v); mixs(asin(x).v); mixs(acos(x).v); mixs(sqrt(x).v); mix(detail::sqrt_abacus(x).v); mix(floor(x).v); mix(ceil(x).v); mix(abs(x).v);
    mix((x >> 3).v); mix((x << 5).v); mix(fixed_to_integral<int>(x)); mix((int64_t)(fixed_to_floating_point<double>(x) * 8)); mix(floating_point_to_fixed<float>(fixed_to_floating_point<float>(x)).v);
    for (int64_t b : B) { volatile int64_t vb = b; fixed_t y = as_fixed(vb);
      mix((x + y).v); mix((x - y).v); mix((x * y).v); mix((x / y).v); mix(atan2(x, y).v); mixs(hypot(x, y).v); mix((x * int8_t(vb)).v); mix((x / uint64_t(vb)).v); mix((x * (double)vb > 0)); } }
  uint64_t s = 88172645463325252ull;
  for (int i = 0; i < 200000; ++i) { s ^= s << 13; s ^= s >> 7; s ^= s << 17; int sh = s % 60; volatile int64_t va = (int64_t)(s >> 3) >> sh; if (va == INT64_MIN) continue; fixed_t x = as_fixed((s & 1) ? -va : va); uint64_t t = s * 0x9E3779B97F4A7C15ull; fixed_t y = as_fixed((int64_t)(t >> 5) >> (t % 61));
    mix(sin(x).v); mix(tan(x).v); mix(atan(x).v); mixs(asin(as_fixed(x.v % 70000)).v); mix(detail::sqrt_abacus(as_fixed(x.v < 0 ? -(x.v + 1) : x.v)).v); mix((x * y).v); mix((x / y).v); mix((x + y).v); mixs(hypot(x, y).v); mix(atan2(y, x).v);
    mix(floating_point_to_fixed<double>((double)x.v / 3.0).v); mix(floating_point_to_fixed<float>((float)y.v / 7.0f).v); }
  long differs = 0; for (long x = 1; x < 100000; x += 7) { volatile long vx = x; if (sqrt(as_fixed(vx)).v != detail::sqrt_abacus(as_fixed(vx)).v) ++differs; }
  std::printf("DIGEST %016llx SQRTDIGEST %016llx ALGO %s CE_FAIL %d\n", (unsigned long long)h, (unsigned long long)hs, differs ? "std" : "abacus", ce_fail);
  return ce_fail ? 1 : 0;
}
