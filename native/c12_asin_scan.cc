// Stand-in for C12: all 131073 raw x in [-1,1] (+ outside samples) through the REAL asin/acos, for the sqrt algorithm
// selected at compile time (the driver builds it twice).
#include <fixedmath/fixed_math.hpp>
#include <cstdio>
#include <cmath>
#include <string>
using namespace fixedmath;
int main() {
  long evals = 0, fails = 0; std::string first; long double worst = 0;
  auto fail = [&](const char* w, long x, long r) { if (fails < 5) { char b[200]; snprintf(b, sizeof b, "%s{\"what\":\"%s\",\"x_raw\":%ld,\"result_raw\":%ld}", fails ? "," : "", w, x, r); first += b; } ++fails; };
  long prev = -1000000;
  for (long xv = -65536; xv <= 65536; ++xv) { ++evals;
    fixed_t r = asin(as_fixed(xv)), c = acos(as_fixed(xv));
    if (isnan(r) || isnan(c)) { fail("NaN inside [-1,1]", xv, r.v); continue; }
    // backward error: exists x' within 2 ulp of x with |asin(x) - asin x'| <= 4 ulp
    bool ok = false; long double best = 1e9;
    for (long d = -2; d <= 2 && !ok; ++d) for (int half = 0; half < 2; ++half) { long double xp = ((long double)(xv + d) + (half ? 0.0L : 0.0L)) / 65536; if (xp > 1) xp = 1; if (xp < -1) xp = -1;
      long double e = fabsl((long double)r.v / 65536 - asinl(xp)) * 65536; if (e < best) best = e; if (e <= 4.0L) { ok = true; break; } }
    if (!ok) { // x' may be any real within 2 ulp: asin is monotone, so the reachable values form the interval [asin(x-2ulp), asin(x+2ulp)]
      long double lo = asinl(fmaxl(-1.0L, (long double)(xv - 2) / 65536)) * 65536, hi = asinl(fminl(1.0L, (long double)(xv + 2) / 65536)) * 65536;
      long double rv = (long double)r.v; if (rv >= lo - 4 && rv <= hi + 4) ok = true; }
    if (best > worst && ok) worst = best;
    if (!ok) fail("asin backward error above 4 ulp", xv, r.v);
    if (asin(as_fixed(-xv)).v != -r.v) fail("asin not odd", xv, r.v);
    if (r.v < prev) fail("asin decreasing", xv, r.v);
    prev = r.v;
    long double pc = 3.14159265358979323846L / 2 * 65536 - (long double)r.v; if (fabsl((long double)c.v - pc) > 1.0L) fail("acos not within 1 ulp of pi/2 - asin", xv, c.v);
    if (c.v < -1 || c.v > 205888) fail("acos outside [0,pi] by more than 1 ulp", xv, c.v);
  }
  long outs[] = {65537, -65537, 65538, 100000, -100000, 1l << 40, -(1l << 40), (1l << 62), -(1l << 62), 0x7FFFFFFFFFFFFFFEl, -0x7FFFFFFFFFFFFFFEl};
  for (long xv : outs) { ++evals; if (!isnan(asin(as_fixed(xv))) || !isnan(acos(as_fixed(xv)))) fail("not NaN outside [-1,1]", xv, asin(as_fixed(xv)).v); }
  printf("{\"evaluations\":%ld,\"failures\":%ld,\"first_failures\":[%s],\"exhaustive\":true,\"domain\":\"all 131073 raw x in [-1,1]: backward error (x' within 2 ulp, 4 ulp), odd, non-decreasing, acos identity; samples outside: NaN\",\"oracle\":\"glibc asinl\",\"samples\":[{\"asin_1_raw\":%ld,\"acos_m1_raw\":%ld}]}\n",
         evals, fails, first.c_str(), (long)asin(as_fixed(65536)).v, (long)acos(as_fixed(-65536)).v);
}
