// Stand-in for the accuracy clauses of C20: all integer d in [-360, 360], argument types int8..int64, float, fixed_t.
#include <fixedmath/fixed_math.hpp>
#include <cstdio>
#include <cmath>
#include <string>
using namespace fixedmath;
static long evals = 0, fails = 0; static std::string first;
static void fail(const char* w, long d, long r) { if (fails < 5) { char b[200]; snprintf(b, sizeof b, "%s{\"what\":\"%s\",\"d\":%ld,\"result_raw\":%ld}", fails ? "," : "", w, d, r); first += b; } ++fails; }
template<typename T> static void one(long d, T arg, const char* tn) {
  const long double PI = 3.14159265358979323846264338327950288L, ulp = 1.0L / 65536, f9 = 362880.0L;
  long double x = d * PI / 180;
  fixed_t s = sin_angle(arg), c = cos_angle(arg), t = tan_angle(arg); evals += 3;
  long double ts = sinl(x), tc = cosl(x);
  long double bs = 7 * ulp + powl(fabsl(asinl(ts)), 9) / f9, bc = 7 * ulp + powl(fabsl(asinl(tc)), 9) / f9;
  if (fabsl((long double)s.v / 65536 - ts) > bs) fail("sin_angle beyond C09 bound + 3 ulp", d, s.v);
  if (fabsl((long double)c.v / 65536 - tc) > bc) fail("cos_angle beyond C09 bound + 3 ulp", d, c.v);
  if (labs(d) % 180 != 90) { long double tt = tanl(x); if (isnan(t) || fabsl((long double)t.v / 65536 - tt) > 5 * ulp * (1 + tt * tt)) fail("tan_angle beyond 5 ulp*(1+tan^2)", d, t.v); }
  // same result whatever type carries d
  if (s.v != sin_angle((int64_t)d).v || c.v != cos_angle((int64_t)d).v || (labs(d) % 180 != 90 && t.v != tan_angle((int64_t)d).v)) fail(tn, d, s.v);
}
int main() {
  for (long d = -360; d <= 360; ++d) {
    if (d >= -128 && d <= 127) one<int8_t>(d, (int8_t)d, "int8_t differs from int64_t");
    one<int16_t>(d, (int16_t)d, "int16_t differs"); one<int32_t>(d, (int32_t)d, "int32_t differs"); one<int64_t>(d, d, "int64");
    one<float>(d, (float)d, "float differs from int64_t"); one<fixed_t>(d, fixed_t((int)d), "fixed_t differs from int64_t");
    if (d >= 0) { ++evals; fixed_t r = angle_to_radians((int)d); long double e = fabsl((long double)r.v - d * 3.14159265358979323846264338327950288L / 180 * 65536); if (isnan(r) || e > 2.0L) fail("angle_to_radians beyond 2 ulp", d, r.v); }
  }
  printf("{\"evaluations\":%ld,\"failures\":%ld,\"first_failures\":[%s],\"exhaustive\":true,\"domain\":\"all integer d in [-360,360] x {int8 (where representable), int16, int32, int64, float, fixed_t}: C09 bound + 3 ulp, C10 bound with 5 ulp, type independence; angle_to_radians on [0,360]\",\"oracle\":\"glibc sinl/cosl/tanl\",\"samples\":[{\"sin_angle_30\":%ld,\"cos_angle_60\":%ld,\"tan_angle_45\":%ld}]}\n",
         evals, fails, first.c_str(), (long)sin_angle(30).v, (long)cos_angle(60).v, (long)tan_angle(45).v);
}
