// Stand-in for accuracy / monotonicity clauses of C11 (REAL atan, atan2). argv: seed tier
#include <fixedmath/fixed_math.hpp>
#include <cstdio>
#include <cmath>
#include <cstdlib>
#include <random>
#include <string>
#include <vector>
#include <omp.h>
using namespace fixedmath;
static long fails = 0; static std::string first;
static void fail(const char* what, long a, long b, long r) {
  #pragma omp critical
  { if (fails < 5) { char buf[220]; snprintf(buf, sizeof buf, "%s{\"what\":\"%s\",\"a_raw\":%ld,\"b_raw\":%ld,\"result_raw\":%ld}", fails ? "," : "", what, a, b, r); first += buf; } ++fails; }
}
static inline void chk(long xv, long double& worst) {
  fixed_t r = atan(as_fixed(xv)); long double t = atanl((long double)xv / 65536), e = fabsl((long double)r.v / 65536 - t);
  if (e > worst) worst = e;
  if (e > 5e-5L) fail("atan error above 5e-5", xv, 0, r.v);
  if (r.v > 102944 || r.v < -102944) fail("|atan| exceeds library pi/2", xv, 0, r.v);
  if (atan(as_fixed(-xv)).v != -r.v) fail("atan not odd", xv, 0, r.v);
}
int main(int argc, char** argv) {
  unsigned long seed = argc > 1 ? strtoul(argv[1], 0, 10) : 0; int tier = argc > 2 ? atoi(argv[2]) : 0;
  long evals = 0; long double worst = 0;
  long limit = tier ? (1l << 34) : (1l << 24);
  // exhaustive prefix [0, limit): accuracy, bound, oddness, monotone up to 2 ulp (running maximum per chunk + chunk seams)
  const long CH = 1l << 20; long nch = limit / CH; std::vector<long> chmax(nch), chmin_ok(nch);
  #pragma omp parallel for schedule(dynamic) reduction(max:worst) reduction(+:evals)
  for (long c = 0; c < nch; ++c) { long mx = -1;
    for (long x = c * CH; x < (c + 1) * CH; ++x) { chk(x, worst); ++evals; long v = atan(as_fixed(x)).v; if (v + 2 < mx) fail("atan not monotone within 2 ulp", x, 0, v); if (v > mx) mx = v; }
    chmax[c] = mx; }
  { long mx = -1; for (long c = 0; c < nch; ++c) { long v0 = atan(as_fixed(c * CH)).v; if (v0 + 2 < mx) fail("atan not monotone within 2 ulp (chunk seam)", c * CH, 0, v0); if (chmax[c] > mx) mx = chmax[c]; } }
  // strided sweep of the whole non-constant range [0, 2^34) (every 1024th raw value, shifted by the seed)
  if (!tier) {
    long worst_evals = 0;
    #pragma omp parallel for schedule(static) reduction(max:worst) reduction(+:worst_evals)
    for (long x = (long)(seed % 1024); x < (1l << 34); x += 1024) { chk(x, worst); ++worst_evals; }
    evals += worst_evals;
  }
  // windows around powers of two and segment boundaries, random, above the saturation threshold
  std::vector<long> pts; long segs[] = {28672, 45056, 77824, 159744, 1l << 34};
  for (int k = 10; k < 47; k++) for (long d = -2000; d <= 2000; d++) pts.push_back((1l << k) + d);
  for (long s : segs) for (long d = -5000; d <= 5000; d++) pts.push_back(s + d);
  std::mt19937_64 g(seed * 2654435761u + 7); for (long i = 0; i < (tier ? 50000000 : 5000000); i++) { int sh = g() % 40; pts.push_back((long)(g() >> 17) >> sh); }
  pts.push_back((1l << 47) - 1);
  for (long x : pts) if (x >= 0 && x < (1l << 47)) { chk(x, worst); ++evals; }
  // atan2 on structured / random pairs
  std::vector<long> vs = {0, 1, 2, 3, 65536, 65535, 65537, 102944, 205887, (1l << 47) - 1, (1l << 46), (1l << 31), (1l << 32) + 1, 159744, 28672};
  for (int i = 0; i < (tier ? 3000 : 400); i++) { int sh = g() % 47; vs.push_back((long)(g() >> 17) >> sh); }
  size_t n0 = vs.size(); for (size_t i = 0; i < n0; i++) vs.push_back(-vs[i]);
  long double worst2 = 0;
  const long nv = (long)vs.size();
  #pragma omp parallel for schedule(dynamic, 16) reduction(max:worst2) reduction(+:evals)
  for (long yi = 0; yi < nv; ++yi) for (long x : vs) { long y = vs[yi]; ++evals; fixed_t r = atan2(as_fixed(y), as_fixed(x));
    if (x == 0 && y == 0) { if (!isnan(r)) fail("atan2(0,0) not NaN", y, x, r.v); continue; }
    if (isnan(r)) { fail("atan2 NaN off the origin", y, x, r.v); continue; }
    long double t = atan2l((long double)y, (long double)x), e = fabsl((long double)r.v / 65536 - t);
    if (e > 3.0L) e = fabsl(e - 2 * 3.14159265358979323846L);   // -pi vs pi are the same angle
    if (e > worst2) worst2 = e;
    if (e > 8e-5L) fail("atan2 error above 8e-5", y, x, r.v);
    if ((y > 0 && r.v < 0) || (y < 0 && r.v > 0)) fail("atan2 sign", y, x, r.v);
    if (x == 0 && r.v != (y > 0 ? 102944 : -102944)) fail("atan2 on the y axis", y, x, r.v);
    if (y == 0 && r.v != (x > 0 ? 0 : 205887)) fail("atan2 on the x axis", y, x, r.v); }
  printf("{\"evaluations\":%ld,\"failures\":%ld,\"first_failures\":[%s],\"exhaustive\":false,\"domain\":\"atan: every raw x in [0,%ld) (accuracy 5e-5, bound, odd, monotone within 2 ulp) + windows/random up to 2^47; atan2: %zu x %zu structured/random pairs (8e-5, sign, axes)\",\"oracle\":\"glibc atanl/atan2l\",\"samples\":[{\"atan_worst_error\":%.3Lg,\"atan2_worst_error\":%.3Lg}]}\n",
         evals, fails, first.c_str(), limit, vs.size(), vs.size(), worst, worst2);
}
