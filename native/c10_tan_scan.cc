// Stand-in for the accuracy clause of C10: every raw x in [-pi, pi] through the REAL tan.
#include <fixedmath/fixed_math.hpp>
#include <cstdio>
#include <cmath>
#include <string>
using namespace fixedmath;
int main() {
  long evals = 0, fails = 0; std::string first; long double worst = 0; long worst_x = 0;
  for (long xv = -205887; xv <= 205887; ++xv) {
    long ax = xv < 0 ? -xv : xv; ++evals;
    fixed_t r = tan(as_fixed(xv));
    if (ax % 205887 == 102944) { if (!isnan(r)) { if (fails < 5) { char buf[200]; snprintf(buf, sizeof buf, "%s{\"what\":\"tan not NaN at the pole\",\"x_raw\":%ld,\"result_raw\":%ld}", fails ? "," : "", xv, (long)r.v); first += buf; } ++fails; } continue; }   // odd multiple of the library's pi/2
    long double t = tanl((long double)xv / 65536), b = 2.5L / 65536 * (1 + t * t), e = fabsl((long double)r.v / 65536 - t);
    if (e / b > worst) { worst = e / b; worst_x = xv; }
    if (isnan(r) || e > b) { if (fails < 5) { char buf[200]; snprintf(buf, sizeof buf, "%s{\"what\":\"tan error %.3Lf of bound\",\"x_raw\":%ld,\"result_raw\":%ld}", fails ? "," : "", e / b, xv, (long)r.v); first += buf; } ++fails; }
  }
  printf("{\"evaluations\":%ld,\"failures\":%ld,\"first_failures\":[%s],\"exhaustive\":true,\"domain\":\"all 411775 raw x in [-pi,pi]; bound 2.5 ulp*(1+tan^2 x) off the poles, NaN at the poles\",\"oracle\":\"glibc tanl (long double)\",\"samples\":[{\"worst_error_over_bound\":%.4Lf,\"at_x_raw\":%ld}]}\n", evals, fails, first.c_str(), worst, worst_x);
}
