// Stand-in for the accuracy clause of C14 (REAL hypot, sqrt algorithm selected at compile time). argv: seed n
#include <fixedmath/fixed_math.hpp>
#include <cstdio>
#include <cmath>
#include <cstdlib>
#include <random>
#include <string>
#include <vector>
using namespace fixedmath;
int main(int argc, char** argv) {
  unsigned long seed = argc > 1 ? strtoul(argv[1], 0, 10) : 0; long n = argc > 2 ? atol(argv[2]) : 10000000;
  long evals = 0, fails = 0; std::string first; long double w1 = 0, w2 = 0;
  auto fail = [&](const char* w, long a, long b, long r) { if (fails < 5) { char buf[220]; snprintf(buf, sizeof buf, "%s{\"what\":\"%s\",\"a_raw\":%ld,\"b_raw\":%ld,\"result_raw\":%ld}", fails ? "," : "", w, a, b, r); first += buf; } ++fails; };
  auto chk = [&](long a, long b) { ++evals; fixed_t h = hypot(as_fixed(a), as_fixed(b));
    long double t = sqrtl((long double)a * a + (long double)b * b), e = fabsl((long double)h.v - t);
    bool small = labs(a) < (1l << 30) && labs(b) < (1l << 30);
    if (isnan(h) || h.v < 0) { fail("NaN or negative", a, b, h.v); return; }
    if (small) { if (e > w1) w1 = e; if (e > 2.0L) fail("more than 2 ulp off", a, b, h.v); }
    else { if (t > 0 && e / t > w2) w2 = e / t; if (e > 1.5e-4L * t) fail("relative error above 1.5e-4", a, b, h.v); }
    if (hypot(as_fixed(b), as_fixed(a)).v != h.v || hypot(as_fixed(-a), as_fixed(-b)).v != h.v) fail("not symmetric / sign-insensitive", a, b, h.v); };
  std::mt19937_64 g(seed * 40503 + 11);
  for (long i = 0; i < n; i++) { int s1 = g() % 47, s2 = g() % 47; long a = (long)(g() >> 17) >> s1, b = (long)(g() >> 17) >> s2; if (g() & 1) a = -a; if (g() & 2) b = -b; chk(a, b); }
  std::vector<long> sp = {0, 1, 2, 3, 255, 256, 65535, 65536, 65537, (1l << 47) - 1, 1073741823, 56646};
  for (int k = 1; k < 47; k++) { sp.push_back(1l << k); sp.push_back((1l << k) - 1); sp.push_back((1l << k) + 1); }
  for (long a : sp) for (long b : sp) { chk(a, b); chk(-a, b); }
  for (long a = (1l << 29) - 3000; a < (1l << 30) + 3000; a += 1009) for (long b = 0; b < 70000; b += 6553) chk(a, b);
  for (long e : {1l << 29, 1l << 30}) for (long a = e - 3000; a < e + 3000; ++a) for (long b = 0; b < 70000; b += 6553) chk(a, b);
  printf("{\"evaluations\":%ld,\"failures\":%ld,\"first_failures\":[%s],\"exhaustive\":false,\"domain\":\"%ld random pairs with |raw| < 2^47 (log-uniform magnitudes), all pairs of 2^k, 2^k+-1 and boundary values, the band around 2^29..2^30 with small second operand\",\"oracle\":\"long double sqrtl(a^2+b^2)\",\"samples\":[{\"worst_abs_ulp_below_16384\":%.3Lf,\"worst_relative\":%.3Lg}]}\n",
         evals, fails, first.c_str(), n, w1, w2);
}
