// C19: faithfulness of the four compiled tables (all entries) and the table-driven functions. argv: seed tier
#include <fixedmath/fixed_math.hpp>
#include <cstdio>
#include <cmath>
#include <cstdlib>
#include <random>
#include <string>
#include <omp.h>
using namespace fixedmath;
static long evals = 0, fails = 0; static std::string first;
static void fail(const char* w, long i, long r) {
  #pragma omp critical
  { if (fails < 5) { char b[200]; snprintf(b, sizeof b, "%s{\"what\":\"%s\",\"arg\":%ld,\"result_raw\":%ld}", fails ? "," : "", w, i, r); first += b; } ++fails; } }
int main(int argc, char** argv) {
  unsigned long seed = argc > 1 ? strtoul(argv[1], 0, 10) : 0; int tier = argc > 2 ? atoi(argv[2]) : 0;
  const long double PI = 3.14159265358979323846264338327950288L;
  for (int i = 0; i <= 360; ++i) { evals += 2; long double a = i * PI / 180;
    if (fabsl((long double)sin_angle_tab(i).v - sinl(a) * 65536) > 2.0L) fail("sin table entry beyond 2 ulp", i, sin_angle_tab(i).v);
    if (fabsl((long double)cos_angle_tab(i).v - cosl(a) * 65536) > 2.0L) fail("cos table entry beyond 2 ulp", i, cos_angle_tab(i).v); }
  for (int i = 0; i < 256; ++i) { evals += 2;
    if (i != 128) { long double t = tanl(i * PI / 256); if (fabsl((long double)tan_tab(i).v - t * 65536) > 2.0L * (1 + t * t)) fail("tan table entry beyond 2 ulp*(1+tan^2)", i, tan_tab(i).v); }
    long double s = 65536.0L * sqrtl(i / 256.0L + 31.0L / 262144.0L); if (fabsl((long double)square_root_tab(i) - s) > 1.0L) fail("sqrt table entry beyond 1 unit", i, square_root_tab(i)); }
  for (int i = 1; i < 128; ++i) { ++evals; if (tan_tab(i).v < tan_tab(i - 1).v) fail("tan table first half not sorted", i, tan_tab(i).v); }
  for (int i = 130; i < 256; ++i) { ++evals; if (tan_tab(i).v < tan_tab(i - 1).v) fail("tan table second half not sorted", i, tan_tab(i).v); }
  // sin/cos_angle_aprox: every int32 angle in thorough, structured subset in quick
  auto deg = [&](long d) { long double a = fmodl((long double)d, 360.0L) * PI / 180;
    if (fabsl((long double)sin_angle_aprox((int32_t)d).v - sinl(a) * 65536) > 2.0L) fail("sin_angle_aprox beyond 2 ulp", d, sin_angle_aprox((int32_t)d).v);
    if (fabsl((long double)cos_angle_aprox((int32_t)d).v - cosl(a) * 65536) > 2.0L) fail("cos_angle_aprox beyond 2 ulp", d, cos_angle_aprox((int32_t)d).v); };
  if (tier) {
    #pragma omp parallel for schedule(static) reduction(+:evals)
    for (long d = -2147483648L; d <= 2147483647L; ++d) { deg(d); evals += 2; }
  } else {
    for (long d = -100000; d <= 100000; ++d) { deg(d); evals += 2; }
    for (long k = 0; k < 2000; ++k) { deg(2147483647L - k); deg(-2147483648L + k); evals += 4; }
    std::mt19937_64 g(seed + 5); for (long i = 0; i < 2000000; ++i) { deg((int32_t)g()); evals += 2; }
  }
  // sqrt_aprox: relative error <= 2% on [1, 2^37) raw, 0 at 0, NaN below
  ++evals; if (sqrt_aprox(as_fixed(0)).v != 0) fail("sqrt_aprox(0) != 0", 0, sqrt_aprox(as_fixed(0)).v);
  for (long x : {-1l, -65536l, -(1l << 40)}) { ++evals; if (!isnan(sqrt_aprox(as_fixed(x)))) fail("sqrt_aprox negative not NaN", x, sqrt_aprox(as_fixed(x)).v); }
  auto sq = [&](long x) { long double t = sqrtl((long double)x / 65536) * 65536; long double r = sqrt_aprox(as_fixed(x)).v; if (fabsl(r - t) > 0.02L * t) fail("sqrt_aprox relative error above 2%", x, (long)r); };
  if (tier) {
    #pragma omp parallel for schedule(static) reduction(+:evals)
    for (long x = 1; x < (1l << 37); ++x) { sq(x); ++evals; }
  } else {
    for (long x = 1; x < (1l << 22); ++x) { sq(x); ++evals; }
    for (int k = 22; k < 37; ++k) for (long d = -5000; d <= 5000; ++d) { long x = (1l << k) + d; if (x < (1l << 37)) { sq(x); ++evals; } }
    std::mt19937_64 g(seed + 9); for (long i = 0; i < 5000000; ++i) { int sh = 27 + g() % 37; long x = (long)(g() >> sh); if (x >= 1 && x < (1l << 37)) { sq(x); ++evals; } }
  }
  // atan_index_aprox: within 1.25 of atan(x) * 128 / pi for |x| < 2^31
  auto at = [&](long x) { long double t = atanl((long double)x / 65536) * 128 / PI; long double r = (long double)atan_index_aprox(as_fixed(x)).v / 65536; if (fabsl(r - t) > 1.25L) fail("atan_index_aprox beyond 1.25", x, atan_index_aprox(as_fixed(x)).v); };
  for (long x = -(1l << 21); x <= (1l << 21); ++x) { at(x); ++evals; }
  for (int i = 0; i < 256; ++i) if (i != 128) for (long d = -3; d <= 3; ++d) { at(tan_tab(i).v + d); ++evals; }
  for (int k = 21; k < 47; ++k) for (long d = -1000; d <= 1000; ++d) { at((1l << k) + d); at(-((1l << k) + d)); evals += 2; }
  { std::mt19937_64 g(seed + 17); for (long i = 0; i < (tier ? 100000000 : 3000000); ++i) { int sh = g() % 45; long x = (long)(g() >> 17) >> sh; if (g() & 1) x = -x; at(x); ++evals; } }
  at((1l << 47) - 1); at(-((1l << 47) - 1)); evals += 2;
  printf("{\"evaluations\":%ld,\"failures\":%ld,\"first_failures\":[%s],\"exhaustive\":%s,\"domain\":\"all 361+361+256+256 table entries (exhaustive in every tier); sin/cos_angle_aprox %s; sqrt_aprox %s; atan_index_aprox: |raw| <= 2^21 exhaustive, table thresholds +-3, 2^k windows, random up to 2^47\",\"oracle\":\"glibc long double sinl/cosl/tanl/sqrtl/atanl\",\"samples\":[{\"sin_tab_30\":%ld,\"tan_tab_64\":%ld,\"sqrt_tab_255\":%d}]}\n",
         evals, fails, first.c_str(), tier ? "true" : "false", tier ? "all 2^32 int32 angles" : "|d| <= 100000, both int32 ends, 2e6 random", tier ? "all raw x in [1,2^37)" : "x < 2^22 exhaustive + windows + random",
         (long)sin_angle_tab(30).v, (long)tan_tab(64).v, (int)square_root_tab(255));
}
