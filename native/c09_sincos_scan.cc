// Stand-in for the accuracy clause of C09: every raw x in [-2pi, 2pi] through the REAL sin/cos.
#include <fixedmath/fixed_math.hpp>
#include <cstdio>
#include <cmath>
#include <string>
using namespace fixedmath;
int main() {
  long evals = 0, fails = 0; std::string first; long double worst = 0; long worst_x = 0;
  const long double ulp = 1.0L / 65536, f9 = 362880.0L;
  for (long xv = -411774; xv <= 411774; ++xv) {
    long double x = (long double)xv / 65536;
    for (int which = 0; which < 2; ++which) {
      fixed_t r = which ? cos(as_fixed(xv)) : sin(as_fixed(xv));
      long double t = which ? cosl(x) : sinl(x);
      long double rr = fabsl(asinl(t));
      long double bound = 4 * ulp + powl(rr, 9) / f9;
      long double err = fabsl((long double)r.v / 65536 - t);
      ++evals;
      bool bad = err > bound || r.v < -65536 || r.v > 65536;
      if (err / bound > worst) { worst = err / bound; worst_x = xv; }
      if (bad) { if (fails < 5) { char b[200]; snprintf(b, sizeof b, "%s{\"what\":\"%s error %.3Lf ulp exceeds bound %.3Lf ulp\",\"x_raw\":%ld,\"result_raw\":%ld}", fails ? "," : "", which ? "cos" : "sin", err / ulp, bound / ulp, xv, (long)r.v); first += b; } ++fails; }
    }
  }
  printf("{\"evaluations\":%ld,\"failures\":%ld,\"first_failures\":[%s],\"exhaustive\":true,\"domain\":\"all 823549 raw x in [-2pi,2pi] for sin and cos; bound 4 ulp + r^9/9!, result in [-1,1]\",\"oracle\":\"glibc sinl/cosl/asinl (long double)\",\"samples\":[{\"worst_error_over_bound\":%.4Lf,\"at_x_raw\":%ld},{\"x_raw\":102944,\"sin_raw\":%ld,\"cos_raw\":%ld}]}\n",
         evals, fails, first.c_str(), worst, worst_x, (long)sin(as_fixed(102944)).v, (long)cos(as_fixed(102944)).v);
}
