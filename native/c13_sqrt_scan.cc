// Stand-in for C13 (both sqrt algorithms) -- structured native scan of the REAL functions.
// argv: seed count_random tier(0 quick,1 thorough)
#include <fixedmath/fixed_math.hpp>
#include <cstdio>
#include <cstdint>
#include <cstdlib>
#include <random>
#include <vector>
#include <string>
using namespace fixedmath;
typedef unsigned __int128 u128;
static long fails = 0; static long evals = 0; static std::string first;
static void fail(const char* what, const char* algo, long x, long r) {
  if (fails < 5) { char b[256]; snprintf(b, sizeof b, "%s{\"what\":\"%s\",\"algo\":\"%s\",\"x_raw\":%ld,\"result_raw\":%ld}", fails ? "," : "", what, algo, x, r); first += b; }
  ++fails;
}
template<class F> static long check(F f, const char* algo, long xv, bool floor_exact) {
  fixed_t r = f(as_fixed(xv)); ++evals;
  if (xv < 0) { if (!isnan(r)) fail("negative argument not NaN", algo, xv, r.v); return r.v; }
  u128 N = (u128)xv << 16; long rv = r.v;
  if (rv < 0) { fail("negative result", algo, xv, rv); return rv; }
  u128 lo = floor_exact ? (u128)rv * rv : (rv >= 1 ? (u128)(rv - 1) * (rv - 1) : 0);
  bool lo_ok = floor_exact ? lo <= N : (rv == 0 ? true : lo < N || (rv == 1 && N == 0 ? false : lo < N));
  if (!floor_exact && rv >= 1) lo_ok = (u128)(rv - 1) * (rv - 1) < N;
  bool hi_ok = N < (u128)(rv + 1) * (rv + 1);
  if (!lo_ok || !hi_ok) fail(floor_exact ? "not floor(sqrt(N))" : "|r - sqrt(N)| >= 1 ulp", algo, xv, rv);
  return rv;
}
int main(int argc, char** argv) {
  unsigned long seed = argc > 1 ? strtoul(argv[1], 0, 10) : 0; long nrand = argc > 2 ? atol(argv[2]) : 1000000; int tier = argc > 3 ? atoi(argv[3]) : 0;
  auto ab = [](fixed_t x) { return detail::sqrt_abacus(x); };
  auto sm = [](fixed_t x) { return detail::sqrt_std_math(x); };
  std::vector<long> xs;
  for (int k = 0; k < 47; k++) for (long d = -2; d <= 2; d++) { long v = (1l << k) + d; if (v >= 0 && v < (1l << 47)) xs.push_back(v); }
  xs.push_back(0); xs.push_back((1l << 47) - 1); xs.push_back(-1); xs.push_back(-65536); xs.push_back(-(1l << 46));
  // perfect squares n*n (n = j/256 in value terms: raw n.v = 256*j ... use every integer-valued n and fractional n with representable square)
  long step = tier ? 1 : 7;
  for (long j = 0; j * j <= ((1l << 47) - 1); j += step) { long sq = j * j; for (long d = -1; d <= 1; d++) if (sq + d >= 0 && sq + d < (1l << 47)) xs.push_back(sq + d); }   // raw values around j^2 (x = (j/256)^2)
  std::mt19937_64 g(seed * 7919 + 13);
  for (long i = 0; i < nrand; i++) { int sh = g() % 47; xs.push_back((long)(g() >> 17) >> sh); }
  long prev_x = -1; 
  for (long x : xs) {
    long ra = check(ab, "abacus", x, true);
    long rs = check(sm, "std::sqrt", x, false);
    if (x >= 0) { long d = ra - rs; if (d < -1 || d > 1) fail("algorithms differ by more than 1 ulp", "both", x, d); }
  }
  // exact on squares: sqrt(n*n) == n for representable n*n (n raw multiple of 256 so that n*n/65536 is an integer raw)
  for (long j = 0; j < (tier ? 11863283l : 2000000l); j += (tier ? 1 : 3)) { long n = j * 256; u128 sq = (u128)n * n >> 16; if (sq >= ((u128)1 << 47)) break; long x = (long)sq; ++evals;
    if (ab(as_fixed(x)).v != n) fail("sqrt(n*n) != n", "abacus", x, ab(as_fixed(x)).v);
    ++evals; if (sm(as_fixed(x)).v != n) fail("sqrt(n*n) != n", "std::sqrt", x, sm(as_fixed(x)).v); }
  // monotone on consecutive raw values in a window per binade
  for (int k = 1; k < 47; k++) { long base = (1l << k) - 2000; if (base < 0) base = 0; long pa = -1, ps = -1; for (long x = base; x < base + 4000 && x < (1l << 47); x++) { long a = ab(as_fixed(x)).v, s = sm(as_fixed(x)).v; evals += 2; if (a < pa) fail("not monotone", "abacus", x, a); if (s < ps) fail("not monotone", "std::sqrt", x, s); pa = a; ps = s; } }
  printf("{\"evaluations\":%ld,\"failures\":%ld,\"first_failures\":[%s],\"exhaustive\":false,\"domain\":\"sqrt_abacus and sqrt_std_math on 2^k+-2, raw j^2+-1, %ld random raw values in [0,2^47), negatives; floor-root / <1ulp / exact on squares / monotone windows / algorithms within 1 ulp\",\"oracle\":\"128-bit integer squares\",\"samples\":[{\"x_raw\":65536,\"abacus\":%ld,\"std\":%ld},{\"x_raw\":140737488355327,\"abacus\":%ld,\"std\":%ld}]}\n",
         evals, fails, first.c_str(), nrand, ab(as_fixed(65536)).v, sm(as_fixed(65536)).v, ab(as_fixed((1l<<47)-1)).v, sm(as_fixed((1l<<47)-1)).v);
  return 0;
}
